"""Shared by the engines: universe and workload planning, simulation of a plan, minimisation.

A plan is JSON-able: universe (descriptions), clients (operation lists with scripts), probes,
policy.  simulate() runs it under the simulator; the engines judge the recorded history.
"""
import gc
import json
import threading

from simkit import corpus, mon, rng as rngm, spec, universe as U

KINDS = ['preempt', 'user_abort', 'reenter', 'scramble', 'gc', 'name_reuse', 'ctor_fail', 'compile', 'postprocess', 'clock_jump', 'burst']


# ------------------------------------------------------------------------------- generation

class ModInfo:
    """Generator-side knowledge about one module of the universe (not part of the plan)."""

    def __init__(self, id, name, extends, spec_, gen, parent=None):
        self.id = id
        self.name = name
        self.extends = extends
        self.spec = spec_
        self.gen = gen
        self.parent = parent
        self.desc = spec.render_module(spec_, name, parent.name if parent else None)
        self.chain = (parent.chain if parent else ()) + (self.desc,)
        # effective rules
        self.rules = dict(parent.rules) if parent else {}
        self.super_rules = dict(parent.rules) if parent else {}
        own = []
        for it in spec_['items']:
            if it['k'] in ('rule', 'class'):
                self.rules[it['name']] = it
                if not it.get('ignore') and not it.get('params'):
                    own.append(it)
        self.own = own
        gaps = list(parent.gaps) if parent else []
        for it in spec_['items']:
            if it.get('gap_pattern'):
                gaps += spec.IGNORE_SAMPLES.get(it['gap_pattern'], [])
            elif (it['k'] == 'ignore' or it.get('ignore') or it.get('ignore_override')) and it['expr'][0] == 're':
                gaps += spec.IGNORE_SAMPLES.get(it['expr'][1], [])
        self.gaps = gaps
        first = [it for it in spec_['items'] if it['k'] in ('rule', 'class')]
        own_start = next((it for it in first if spec.is_start(it['name']) and not it.get('ignore')), None)
        if own_start is not None:
            self.start = own_start
        elif parent is not None:
            self.start = parent.start
        else:
            self.start = first[0]
        self.alphabet = sorted(set(''.join(gen.lits)) | set('ab1 ')) + (['\n'] if any('\n' in g for g in gaps) else [])
        self.binary = bool(spec_.get('binary')) or bool(parent and parent.binary)
        if self.binary:
            self.alphabet = list('abe,;\x00\x01\x11\xff\xfe~')
        self.texts = []

    def wire(self, t):
        """The text as it goes into an operation: bytes for binary grammars."""
        return ['bytes', t] if self.binary else t

    def plan_entry(self):
        rules = sorted(n for n, it in self.rules.items() if not it.get('params'))
        return {'id': self.id, 'name': self.name, 'extends': self.extends, 'desc': self.desc, 'rules': rules}


class MetaModule:
    """sourcer/parser.py as a module of a C18 universe (its inputs are grammar descriptions)."""
    name = None
    extends = None
    parent = None
    desc = None
    builtin = 'meta'
    binary = False
    own = []
    gaps = []
    shadowed = False

    def __init__(self, id, r):
        self.id = id
        self.chain = ('<builtin meta>',)
        self.alphabet = list('ab=|()" \n')
        texts = []
        for _ in range(3):
            s, g = spec.gen_root(r, r.random() < 0.5, n_rules=r.randint(2, 3), hook_p=0.2)
            texts.append(spec.render_module(s, U.PREFIX + 'meta' if s['named'] else None))
        texts.append(spec.mutate_text(r, texts[0], self.alphabet))
        self.fixed_texts = texts
        self.texts = texts
        self.rules = {}
        self.super_rules = {}
        self.start = None
        self.gen = None
        self.spec = {'items': []}

    def wire(self, t):
        return t

    def plan_entry(self):
        return {'id': self.id, 'name': None, 'extends': None, 'desc': None, 'builtin': 'meta', 'rules': []}


_DOTTED = [False]


def mod_name(i):
    """Registry name of module i of the current universe (dotted in some universes: package modules
    are then created in sys.modules as well)."""
    return (U.PREFIX + 'p.g%d' % i) if _DOTTED[0] else (U.PREFIX + 'g%d' % i)


def corpus_member(r, id, named):
    """One of the repository's own grammars, chosen by r; None when its file no longer has the expected shape."""
    which = r.choice(sorted(corpus.MEMBERS))
    try:
        return corpus.CorpusModule(id, which, mod_name(id) if named else None)
    except Exception:
        return None


def gen_universe(r):
    infos = []
    _DOTTED[0] = r.random() < 0.15
    n_extra = r.choice([0, 0, 1, 1, 2])
    named0 = r.random() < 0.75
    x0 = r.random()
    if x0 < 0.07:
        # a binary grammar: byte literals, b"..." strings, binary regexes; inputs are bytes
        s0, g0, fixed = spec.binary_root(r, named0)
        m0 = ModInfo(0, mod_name(0) if named0 else None, None, s0, g0)
        m0.fixed_texts = fixed
    elif x0 < 0.30:
        # the feature-rich fixed grammar: clients of one run meet in the same runtime helpers
        s0, g0, fixed = spec.tour_root(r, named0)
        m0 = ModInfo(0, mod_name(0) if named0 else None, None, s0, g0)
        m0.fixed_texts = fixed
    else:
        m0 = None
        if x0 < 0.42:
            # one of the repository's own grammars (Excel, Salesforce, JSON, indentation, matching tags)
            m0 = corpus_member(r, 0, named0)
        if m0 is None:
            s0, g0 = spec.gen_root(r, named0)
            m0 = ModInfo(0, mod_name(0) if named0 else None, None, s0, g0)
    infos.append(m0)
    if named0 and not m0.binary and m0.gen is not None and r.random() < 0.55:
        g0 = m0.gen
        s1, g1 = spec.gen_child(r, g0, ignore=r.choice([None, None, None, 'named']))
        m1 = ModInfo(1, mod_name(1), 0, s1, g1, parent=m0)
        infos.append(m1)
        if r.random() < 0.35:
            s2, g2 = spec.gen_child(r, g1)
            infos.append(ModInfo(2, mod_name(2), 1, s2, g2, parent=m1))
    for _ in range(n_extra):
        if len(infos) >= 4:
            break
        i = len(infos)
        named = r.random() < 0.5
        s, g = spec.gen_root(r, named, n_rules=r.randint(2, 5))
        infos.append(ModInfo(i, mod_name(i) if named else None, None, s, g))
    if r.random() < 0.08 and len(infos) < 4:
        # the shipped meta-parser (sourcer/parser.py) as one more module: clients parse grammar
        # descriptions with it directly while other clients construct grammars (which use it too)
        infos.append(MetaModule(len(infos), r))
    # drop modules whose chain does not compile (both sides of the oracle would agree on the
    # failure and the run would explore nothing)
    good = []
    bad = set()
    for m in infos:
        if m.extends in bad:
            bad.add(m.id)
            continue
        if getattr(m, 'builtin', None):
            good.append(m)
            continue
        codes = U.chain_codes(m.chain)
        if isinstance(codes, tuple):
            bad.add(m.id)
            continue
        good.append(m)
    return good


def entry_text(r, m, it):
    """A derivation from one rule of the module (for calls through that rule's own entry point)."""
    et = getattr(m, 'entry_texts', None)
    if et is not None:
        t = r.choice(et.get(it['name']) or m.texts)
        if r.random() < 0.3:
            t = spec.mutate_text(r, t, m.alphabet)
        return t
    sm = spec.Sampler(r, m.rules, m.super_rules)
    sm.budget = 600
    sm.maxdepth = r.choice([2, 3, 4])
    t = spec.join_tokens(r, sm.item(it, 0), m.gaps)[:60]
    if r.random() < 0.3:
        t = spec.mutate_text(r, t, m.alphabet)
    return t


def text_len(op):
    t = op['text']
    return len(t[1]) if isinstance(t, list) else len(t)


def warm_hot_lines(infos):
    """In the group process: the shared-state lines of the universe's generated code (cached per code
    object and inherited by the forked run children)."""
    for m in infos:
        if getattr(m, 'builtin', None):
            continue
        try:
            with U.isolated_registry():
                for mod in U.build_chain_fast(m.chain):
                    for c in U.generated_codes(mod):
                        mon.hot_lines(c, vars(mod))
        except Exception:
            pass


def make_texts(r, m, n=3, accept=None):
    """Texts for a module: derivations from its (effective) grammar, then families of colliding and
    near-miss variants.  accept(text) -> bool, when given, is used to prefer derivations the
    grammar really accepts (random predicates and lookaheads make many derivations fail)."""
    sm = spec.Sampler(r, m.rules, m.super_rules)
    out = list(getattr(m, 'fixed_texts', None) or [])
    if not out:
        cands = []
        for k in range(n if accept is None else 4 * n):
            sm.budget = 4000
            sm.maxdepth = r.choice([3, 4, 5, 6])
            toks = sm.item(m.start, 0)
            t = spec.join_tokens(r, toks, m.gaps)
            if len(t) > 60:
                sm.maxdepth = 2
                sm.budget = 300
                t = spec.join_tokens(r, sm.item(m.start, 0), m.gaps)[:60]
            cands.append(t)
        sm.maxdepth = 6
        if accept is None:
            out = cands
        else:
            good, bad = [], []
            for t in cands:
                (good if (t not in good and accept(t)) else bad).append(t)
            out = good[:n]
            out += bad[:max(1, n - len(out))]
    # one longer, multi-line text now and then: reaches the excerpt code on error paths
    if m.gaps and r.random() < 0.2:
        toks = []
        for _ in range(8):
            sm.budget = 1000
            toks += sm.item(m.start, 0)
        out.append(spec.join_tokens(r, toks, m.gaps + ['\n'])[:400])
    fam = []
    for t in out:
        fam.append(t)
        fam.append(spec.collide(r, t, m.alphabet, m.gaps))
        if r.random() < 0.5:
            fam.append(spec.collide(r, t, m.alphabet, m.gaps))
        if r.random() < 0.5:
            fam.append(spec.mutate_text(r, t, m.alphabet))
    return fam


RUNS_PER_UNIVERSE = 6


def scale_of(tier, index, rpu):
    """Deeper bounds in the thorough tier: every third universe group gets histories twice as long and up to six clients."""
    return 2 if (tier == 'thorough' and (index // rpu) % 3 == 2) else 1


class Planner:
    def __init__(self, seed, useed=None, prop='C18', universe_fn=None, kinds_pool=None, runs_per_universe=None, scale=1):
        self.scale = scale          # thorough tier: every third universe group runs longer histories with more clients
        self.kinds_pool = kinds_pool or KINDS
        self.rpu = runs_per_universe or RUNS_PER_UNIVERSE
        self.prop = prop
        self.universe_fn = universe_fn or gen_universe
        self.seed = seed
        self.useed = seed if useed is None else useed
        self.ur = rngm.stream(self.useed, 'universe')
        self.tr = rngm.stream(self.useed, 'texts')
        self.wr = rngm.stream(seed, 'workload')
        self.fr = rngm.stream(seed, 'faults')
        self.sr = rngm.stream(seed, 'schedule')
        self.refs = {}
        self.infos = {}
        self.chains = {}

    def ref(self, op):
        chain = self.chains[op['mod']]
        key = (chain, U.op_key(op))
        hit = self.refs.get(key)
        if hit is None:
            hit = self.refs[key] = U.reference_outcome(chain, U.strip_nests(op))
        return hit

    def gen_parse(self, mid, kinds, depth=0):
        wr, fr = self.wr, self.fr
        m = self.infos[mid]
        if getattr(m, 'builtin', None):
            op = {'op': 'parse', 'mod': mid, 'entry': 'parse', 'text': wr.choice(m.texts), 'pos': 0, 'full': True,
                  'budget': U.HARD_CAP}
            op['_steps'] = self.ref(op)['steps']
            return op
        text = wr.choice(m.texts)
        entry = 'parse'
        if m.own and wr.random() < 0.3:
            it = wr.choice(m.own)
            entry = ('class:' if it['k'] == 'class' else 'rule:') + it['name']
            if wr.random() < 0.6:
                text = entry_text(wr, m, it)
        pos = 0
        if text and wr.random() < 0.2:
            pos = wr.randrange(0, min(len(text), 6))
        full = wr.random() < 0.8
        wired = m.wire(text)
        if m.binary and wr.random() < 0.35:
            wired = ['bytearray', text]        # a mutable buffer
        if wr.random() < 0.03:
            # input of the other kind (bytes for a text grammar, str for a binary one): a legitimate
            # call with its own outcome (usually TypeError), after which nothing may have changed
            wired = text if m.binary else ['bytes', text.encode('latin-1', 'replace').decode('latin-1')]
        op = {'op': 'parse', 'mod': mid, 'entry': entry, 'text': wired, 'pos': pos, 'full': full}
        if text in getattr(self, 'shared_texts', ()):
            op['textobj'] = 'shared'        # one text object per value for all clients of the run
        rec = self.ref(op)
        fired = rec['fired']
        steps = rec['steps']
        script = {}
        terminated = rec['out'].get('err') != 'nontermination'
        if fired and terminated:
            if 'user_abort' in kinds and fr.random() < 0.25:
                tag, p, _ = fr.choice(fired)
                # (user code may raise something that is not an Exception: the call is abandoned all the same)
                script['%s@%s' % (tag, p)] = 'abort' if fr.random() < 0.7 else 'abort_base'
            if 'reenter' in kinds and depth < 2 and fr.random() < 0.35:
                tag, p, _ = fr.choice(fired)
                key = '%s@%s' % (tag, p)
                if key not in script:
                    # nested parse: usually the same module, a colliding text
                    nmid = mid if fr.random() < 0.7 else fr.choice(sorted(self.infos))
                    sub = None
                    st = getattr(self, '_st', None)
                    if ('compile' in kinds and depth == 0 and st is not None and st['next_id'] < 12 * self.scale
                            and fr.random() < 0.15):
                        # the callback CONSTRUCTS a grammar in the middle of the parse: a sub-grammar of the very module whose
                        # call is in progress, a new generation of that module's NAME, or something unrelated
                        x = fr.random()
                        pp = m if (x < 0.4 and m.name and m.gen is not None) else None
                        pv = m if (0.4 <= x < 0.65 and m.name and m.parent is None) else None
                        got = self._compile_ops(self._ci, [k for k in kinds if k != 'reenter'], prefer_parent=pp, prefer_victim=pv,
                                                single=True)
                        if got:
                            sub = got[0]
                            sub['nested_in_parse'] = True
                    if sub is not None:
                        pass
                    elif nmid == mid and fr.random() < 0.35:
                        # the callback passes on what it was handed: Sub.parse(_text, _pos)
                        sub = self.gen_nested_on_outer_text(op, p)
                    else:
                        sub = self.gen_parse(nmid, kinds, depth + 1)
                    script[key] = {'nest': sub}
                    steps += sub.get('_steps', 0)
            if 'gc' in kinds and fr.random() < 0.06:
                tag, p, _ = fr.choice(fired)
                script.setdefault('%s@%s' % (tag, p), 'gc')
            preds = [f for f in fired if f[2] == 'p']
            if preds and fr.random() < 0.15:
                tag, p, _ = fr.choice(preds)
                key = '%s@%s' % (tag, p)
                if key not in script:
                    script[key] = 'false'
        if 'user_abort' in kinds and fr.random() < 0.15:
            op['keep_exc'] = True           # if the call fails, the caller holds on to the exception (a list of errors)
        if script:
            op['script'] = script
            if any(v in ('abort', 'abort_base') for v in script.values()) and fr.random() < 0.5:
                op['keep_exc'] = True       # the caller holds on to the exception of the abandoned call
            rec2 = self.ref(op)
            steps += rec2['steps']
        if terminated:
            op['budget'] = min(U.SIM_BUDGET_CAP, 200 * steps + 100_000)
        else:
            op['budget'] = U.REF_BUDGET
        op['_steps'] = steps
        return op

    def gen_nested_on_outer_text(self, op, p):
        """A nested call on the very text object of the enclosing call, from the callback's position."""
        fr = self.fr
        m = self.infos[op['mod']]
        n = text_len(op)
        new = {'op': 'parse', 'mod': op['mod'], 'entry': 'parse', 'text': op['text'], 'textobj': 'outer',
               'pos': p if (isinstance(p, int) and 0 <= p <= n and fr.random() < 0.7) else 0, 'full': fr.random() < 0.4}
        if m.own and fr.random() < 0.7:
            it = fr.choice(m.own)
            new['entry'] = ('class:' if it['k'] == 'class' else 'rule:') + it['name']
        rec = self.ref(new)
        if rec['out'].get('err') == 'nontermination':
            new['budget'] = U.REF_BUDGET
        else:
            new['budget'] = min(U.SIM_BUDGET_CAP, 200 * rec['steps'] + 100_000)
        new['_steps'] = rec['steps']
        return new

    def gen_sibling(self, op):
        """The same text again, differing in ONE argument: start offset, fullparse flag or entry point
        (state remembered from a call must not matter when only an argument changes)."""
        wr = self.wr
        m = self.infos[op['mod']]
        new = {k: v for k, v in op.items() if k in ('op', 'mod', 'entry', 'text', 'pos', 'full')}
        if isinstance(op['text'], list) and op['text'][0] == 'bytearray' and m.texts and wr.random() < 0.6:
            # the caller refills the buffer in place and parses the same object again
            new['text'] = ['bytearray', wr.choice(m.texts)]
            new['textobj'] = 'refill'
            new['pos'] = 0
            op['keep_text'] = True
            new['keep_text'] = True
            rec = self.ref(new)
            new['budget'] = U.REF_BUDGET if rec['out'].get('err') == 'nontermination' else min(U.SIM_BUDGET_CAP, 200 * rec['steps'] + 100_000)
            new['_steps'] = rec['steps']
            return new
        what = wr.choice(['pos', 'pos', 'full', 'entry', 'same'])       # 'same': the very same call once more
        n = text_len(op)
        if what == 'pos' and n > 0:
            new['pos'] = wr.choice([p for p in (0, 1, 2, 3, n // 2, n - 1) if 0 <= p < n and p != op['pos']] or [0])
        elif what == 'entry' and m.own:
            it = wr.choice(m.own)
            e = ('class:' if it['k'] == 'class' else 'rule:') + it['name']
            new['entry'] = e if e != op['entry'] else 'parse'
        elif what == 'same':
            pass
        else:
            new['full'] = not op['full']
        if wr.random() < 0.5:
            # ... passing the very same text object again (incremental use of one buffer)
            new['textobj'] = 'prev'
            op['keep_text'] = True
        rec = self.ref(new)
        if rec['out'].get('err') == 'nontermination':
            new['budget'] = U.REF_BUDGET
        else:
            new['budget'] = min(U.SIM_BUDGET_CAP, 200 * rec['steps'] + 100_000)
        new['_steps'] = rec['steps']
        return new

    def gen_compile(self, kinds, next_id, forbidden_names, client_names, prefer_foreign=False, prefer_child=False,
                    prefer_parent=None, prefer_victim=None):
        """A Grammar() construction as an operation of a client."""
        r = self.wr
        # a module whose name (or an ancestor's name) has been re-bound can still be parsed with,
        # but is not extended any more: Grammar() re-reads every ancestor *by name*, so such a
        # child would be wired half to the old and half to the new ancestor (DESIGN 4.1 bound)
        def names_of(m):
            out = set()
            while m is not None:
                out.add(m.name)
                m = m.parent
            return out

        def stale(m):
            while m is not None:
                if getattr(m, 'shadowed', False):
                    return True
                m = m.parent
            return False
        usable = [m for m in self.infos.values() if m.name and not stale(m)
                  and getattr(m, 'owner', client_names) == client_names]
        parents = [m for m in usable if not (names_of(m) & forbidden_names) and m.gen is not None]
        victims = [m for m in usable if m.name not in forbidden_names and m.parent is None
                   and not getattr(m, 'frozen', False)]
        # a module that ANOTHER client creates in this run under a name never bound before may be extended as
        # well: depending on the schedule the construction fails (parent not there yet) or must see a complete
        # parent -- never a half-built one.  (Its name is frozen: nobody re-binds it afterwards.)
        foreign = [m for m in self.infos.values() if m.name and not stale(m) and m.gen is not None
                   and getattr(m, 'owner', client_names) != client_names and getattr(m, 'fresh_name', False)
                   and not getattr(m, 'binary', False)]
        named_roots = parents
        choice = r.random()
        if prefer_parent is not None and prefer_parent in parents:
            s, g = spec.gen_child(r, prefer_parent.gen)
            info = ModInfo(next_id, mod_name(next_id), prefer_parent.id, s, g, parent=prefer_parent)
            info.fresh_name = True
            return [({'op': 'compile', 'mod': next_id, 'desc': info.desc, 'name': info.name, 'extends': info.extends}, info)]
        if prefer_victim is not None and prefer_victim in victims:
            s, g = spec.gen_root(r, True, n_rules=r.randint(2, 4))
            info = ModInfo(next_id, prefer_victim.name, None, s, g)
            info.victim = prefer_victim
            return [({'op': 'compile', 'mod': next_id, 'desc': info.desc, 'name': info.name, 'extends': None}, info)]
        if foreign and (prefer_foreign or r.random() < 0.25):
            parent = r.choice(sorted(foreign, key=lambda m: m.id))
            s, g = spec.gen_child(r, parent.gen)
            info = ModInfo(next_id, mod_name(next_id), parent.id, s, g, parent=parent)
            info.fresh_name = True
            anc = parent
            while anc is not None:
                anc.frozen = True
                anc = anc.parent
            op = {'op': 'compile', 'mod': next_id, 'desc': info.desc, 'name': info.name, 'extends': info.extends,
                  'extends_foreign': True}
            if r.random() < 0.6:
                op['include_source'] = True
            return [(op, info)]
        if 'name_reuse' in kinds and choice < 0.30 and not prefer_child:
            # "edit the base, re-run everything": an extended root is re-created under its name with
            # edited rules, then a child is re-created from its byte-identical description
            pairs = [(v, k) for v in victims for k in usable
                     if k.parent is v and k.name not in forbidden_names and not (names_of(k) & forbidden_names)]
            if pairs:
                v, k = r.choice(sorted(pairs, key=lambda p: (p[0].id, p[1].id)))
                vs, vg = spec.gen_variant(r, v.spec, v.gen)
                i1 = ModInfo(next_id, v.name, None, vs, vg)
                i1.victim = v
                i2 = ModInfo(next_id + 1, k.name, next_id, k.spec, k.gen, parent=i1)
                i2.victim = k
                out = []
                for info in (i1, i2):
                    out.append(({'op': 'compile', 'mod': info.id, 'desc': info.desc, 'name': info.name,
                                 'extends': info.extends, 'recreate': True}, info))
                return out
        if named_roots and (choice < 0.35 or prefer_child):
            parent = r.choice(sorted(named_roots, key=lambda m: m.id))
            s, g = spec.gen_child(r, parent.gen)
            info = ModInfo(next_id, mod_name(next_id), parent.id, s, g, parent=parent)
            info.fresh_name = True
        elif victims and 'name_reuse' in kinds and choice < 0.6:
            victim = r.choice(sorted(victims, key=lambda m: m.id))
            s, g = spec.gen_root(r, True, n_rules=r.randint(2, 4))
            info = ModInfo(next_id, victim.name, None, s, g)
            info.victim = victim
        else:
            named = r.random() < 0.6
            s, g = spec.gen_root(r, named, n_rules=r.randint(2, 4))
            info = ModInfo(next_id, mod_name(next_id) if named else None, None, s, g)
            info.fresh_name = bool(named)
        op = {'op': 'compile', 'mod': next_id, 'desc': info.desc, 'name': info.name, 'extends': info.extends}
        if r.random() < 0.6:
            op['include_source'] = True
        if 'reenter' in kinds and r.random() < 0.3:
            # user code that runs DURING the construction: a Python section of the grammar (executed by
            # Grammar()) calls back; the callback parses with an existing module or constructs a helper
            # grammar of its own -- a construction nested in a construction
            tag = 'k%d' % next_id
            info.spec['items'].append({'k': 'py', 'code': 'vx_hook(%s, "", 0)' % json.dumps(tag)})
            info.desc = spec.render_module(info.spec, info.name, info.parent.name if info.parent else None)
            info.chain = (info.parent.chain if info.parent else ()) + (info.desc,)
            op['desc'] = info.desc
            cands = sorted(i for i, m in self.infos.items() if getattr(m, 'owner', client_names) == client_names)
            if cands and r.random() < 0.65:
                sub = self.gen_parse(r.choice(cands), kinds, depth=1)
            else:
                hs, hg = spec.gen_root(r, False, n_rules=r.randint(1, 3), hook_p=0.0)
                hnamed = r.random() < 0.4
                sub = {'op': 'compile', 'mod': 900 + next_id, 'name': mod_name(900 + next_id) if hnamed else None, 'extends': None,
                       'desc': spec.render_module(hs, mod_name(900 + next_id) if hnamed else None)}
            op['script'] = {tag + '@0': {'nest': sub}}
        if 'ctor_fail' in kinds and r.random() < 0.25:
            # a construction that fails half-way: a Python section that raises at exec time
            info.spec['items'].append({'k': 'py', 'code': 'raise RuntimeError("ctor_fail")'})
            info.desc = spec.render_module(info.spec, info.name, info.parent.name if info.parent else None)
            info.chain = (info.parent.chain if info.parent else ()) + (info.desc,)
            op['desc'] = info.desc
            op['fails'] = True
        return [(op, info)]

    def _compile_ops(self, ci, kinds, prefer_foreign=False, prefer_child=False, prefer_parent=None, prefer_victim=None,
                     single=False):
        """Construction operation(s) for client ci with all the bookkeeping (names, chains, texts, probes)."""
        st = self._st
        wr = self.wr
        forbidden = set()
        for cj, names in st['extended_by'].items():
            if cj != ci:
                forbidden |= names
        for cj, names in st['defined_by'].items():
            if cj != ci:
                forbidden |= names
        got = self.gen_compile(kinds, st['next_id'], forbidden, ci, prefer_foreign=prefer_foreign, prefer_child=prefer_child,
                               prefer_parent=prefer_parent, prefer_victim=prefer_victim)
        if single and len(got) != 1:
            return []
        out = []
        failed = False
        for op, info in got:
            if failed:
                break
            next_id = st['next_id']
            # the child's parent name must not be re-bound by another client
            anc = info.parent
            while anc is not None:
                st['extended_by'].setdefault(ci, set()).add(anc.name)
                anc = anc.parent
            if info.name:
                st['defined_by'].setdefault(ci, set()).add(info.name)
            ok = not isinstance(U.chain_codes(info.chain), tuple)
            if op.get('fails') or not ok:
                op['fails'] = True
                failed = True
            out.append(op)
            self.chains[next_id] = info.chain
            if ok and not op.get('fails'):
                if getattr(info, 'victim', None) is not None:
                    info.victim.shadowed = True
                info.texts = make_texts(wr, info, n=2)
                info.owner = ci
                self.infos[next_id] = info
                st['suspects'][next_id] = [info.wire(t) for t in info.texts[:10]]
            st['next_id'] += 1
        return out

    def plan(self, index, verif_seed):
        ur, wr, fr, sr = self.ur, self.wr, self.fr, self.sr
        infos = self.universe_fn(ur)
        if not infos:
            return None
        for m in infos:
            self.infos[m.id] = m
            self.chains[m.id] = m.chain
            if getattr(m, 'builtin', None):
                continue
            m.texts = make_texts(self.tr, m)
        baseline = fr.random() < 0.08
        if baseline:
            kinds = []
            n_clients = 1
        else:
            kinds = [k for k in self.kinds_pool if fr.random() < (0.9 if k == 'preempt' else 0.7)]
            n_clients = wr.choice([1, 2, 2, 2, 3, 3, 3, 4] if self.scale == 1 else [2, 3, 3, 4, 4, 5, 6])
        # the canonical schedule for code that is not re-entrant: two clients each START with a construction,
        # the first is pre-empted at a uniformly chosen step of it and the second runs to completion in the gap
        race = (not baseline) and 'compile' in self.kinds_pool and fr.random() < 0.05
        if race:
            kinds = sorted(set(kinds) | {'preempt', 'compile'})
            n_clients = 2
        hot = wr.choice(sorted(self.infos))
        # "constants of the application": some texts of the hot module are one object for every client
        ht = self.infos[hot].texts
        self.shared_texts = set(wr.sample(ht, min(len(ht), 2))) if (ht and wr.random() < 0.3) else set()
        clients = []
        # names (re)defined by compile operations, per client, to keep the one documented bound:
        # a name is never re-bound while another client's compile extends that same name
        self._st = {'next_id': max(self.infos) + 1, 'defined_by': {}, 'extended_by': {}, 'suspects': {}, 'nested_probes': []}
        suspects = self._st['suspects']
        for ci in range(n_clients):
            self._ci = ci
            self._kinds = kinds
            ops = []
            n_ops = wr.randint(1, 6 * self.scale)
            for _ in range(n_ops):
                x = wr.random()
                if race and not ops:
                    x = 0.0
                elif race and len(ops) <= 3 and ops[0]['op'] == 'compile' and not ops[0].get('fails') and ops[0]['mod'] in self.infos:
                    # ... followed by calls on the module it has just built
                    ops.append(self.gen_parse(ops[0]['mod'], kinds))
                    continue
                live = sorted(self.infos)
                if 'compile' in kinds and x < 0.12 and self._st['next_id'] < 12 * self.scale:
                    self._ci = ci
                    ops.extend(self._compile_ops(ci, kinds,
                                                 prefer_foreign=(race and ci == 1 and not ops and wr.random() < 0.7),
                                                 prefer_child=(race and ci == 0 and not ops and wr.random() < 0.6)))
                    continue
                if 'scramble' in kinds and x < 0.2 and ops and ops[-1]['op'] == 'parse':
                    ops.append({'op': 'scramble'})
                    continue
                if 'postprocess' in kinds and 0.2 <= x < 0.27 and ops and ops[-1]['op'] == 'parse':
                    ops.append({'op': 'postprocess'})
                    continue
                if 'gc' in kinds and x < 0.25:
                    ops.append({'op': 'gc'})
                    continue
                if 'clock_jump' in kinds and 0.27 <= x < 0.31:
                    # the clock moves on between two operations: 1 ms ... 1 day
                    ops.append({'op': 'clock_jump', 'seconds': wr.choice([0.001, 0.06, 1.5, 61.0, 3700.0, 86401.0])})
                    continue
                # a parse: mostly on the hot module so that calls collide
                cands = [i for i in live if getattr(self.infos[i], 'owner', ci) == ci]
                if ops and ops[-1]['op'] == 'parse' and text_len(ops[-1]) < 300 and wr.random() < (
                        0.5 if (isinstance(ops[-1]['text'], list) and ops[-1]['text'][0] == 'bytearray') else 0.15):
                    ops.append(self.gen_sibling(ops[-1]))
                    continue
                mid = hot if (hot in cands and wr.random() < 0.65) else wr.choice(cands)
                ops.append(self.gen_parse(mid, kinds))
            clients.append(ops)
        if 'burst' in kinds and wr.random() < 0.04:
            # a long-lived module: one client first makes hundreds of ordinary calls on the hot module
            hm = self.infos[hot]
            if getattr(hm, 'owner', 0) == 0 and hm.texts and not getattr(hm, 'builtin', None):
                cand = []
                for t in hm.texts:
                    rec = self.ref({'op': 'parse', 'mod': hot, 'entry': 'parse', 'text': hm.wire(t), 'pos': 0, 'full': True})
                    if rec['out'].get('err') != 'nontermination' and rec['steps'] < 15_000:
                        cand.append(t)
                if cand:
                    ts = [hm.wire(t) for t in wr.sample(cand, min(len(cand), wr.choice([1, 1, 2])))]
                    clients[0].insert(0, {'op': 'burst', 'mod': hot, 'texts': ts, 'n': wr.choice([300, 1200, 2500])})
        if n_clients >= 2 and wr.random() < 0.3:
            # "the same request, twice, at the same time": the other clients start with the very operation
            # the first client starts with -- the call that is let into a window then runs through the
            # same call sites and lazily initialised objects as the pre-empted one
            import copy
            first = next((op for op in clients[0] if op['op'] == 'parse'), None)
            if first is not None:
                twin = copy.deepcopy(first)
                # (the copies do not construct anything: a construction planned for client 0 - under ITS view of which
                # names are bound to what - must not be repeated by other clients at other moments)
                if twin.get('script'):
                    twin['script'] = {k: v for k, v in twin['script'].items()
                                      if not (isinstance(v, dict) and 'nest' in v and v['nest'].get('op') == 'compile')}
                for ci in range(1, n_clients):
                    if wr.random() < 0.7:
                        clients[ci].insert(0, copy.deepcopy(twin))
        if n_clients >= 2 and 'reenter' in kinds and wr.random() < 0.5:
            # mutual nesting: some client's call on module A starts a nested call on module B -- another client then
            # STARTS with a call on B that nests a call on A (the two orders in which two modules can be entered)
            found = None
            for ci, ops in enumerate(clients):
                for op in ops:
                    for act in (op.get('script') or {}).values() if op['op'] == 'parse' else ():
                        if isinstance(act, dict) and act['nest']['op'] == 'parse' and act['nest']['mod'] != op['mod']:
                            found = (ci, op['mod'], act['nest']['mod'])
                            break
                    if found:
                        break
                if found:
                    break
            if found:
                ci, a, b = found
                cj = wr.choice([j for j in range(n_clients) if j != ci])
                if getattr(self.infos.get(b), 'owner', cj) == cj and getattr(self.infos.get(a), 'owner', cj) == cj:
                    inv = self.gen_parse(b, [k for k in kinds if k != 'reenter'])
                    fired = self.ref(inv)['fired']
                    if fired and self.ref(inv)['out'].get('err') != 'nontermination':
                        tag, p, _ = wr.choice(fired)
                        sc = dict(inv.get('script') or {})
                        sc.setdefault('%s@%s' % (tag, p), {'nest': self.gen_parse(a, [k for k in kinds if k != 'reenter'], depth=1)})
                        inv['script'] = sc
                        clients[cj].insert(0, inv)
        probes = []
        for mid in sorted(self.infos):
            m = self.infos[mid]
            for t in m.texts[:2]:
                probes.append({'op': 'parse', 'mod': mid, 'entry': 'parse', 'text': m.wire(t), 'pos': 0, 'full': True})
                if getattr(m, 'builtin', None):
                    probes[-1]['budget'] = U.HARD_CAP
            if m.own:
                # ... and once through the entry point of one of its own rules or classes
                it = m.own[wr.randrange(len(m.own))]
                probes.append({'op': 'parse', 'mod': mid, 'entry': ('class:' if it['k'] == 'class' else 'rule:') + it['name'],
                               'text': m.wire(entry_text(wr, m, it)), 'pos': 0, 'full': wr.random() < 0.5})
        expected = sum(op.get('_steps', 0) for ops in clients for op in ops) + 1
        if n_clients == 1 or 'preempt' not in kinds:
            pol = {'kind': 'sequential'} if (n_clients == 1 or sr.random() < 0.5) else {'kind': 'op-interleave'}
        else:
            x = sr.random()
            if x < 0.04:
                pol = {'kind': 'sequential'}
            elif x < 0.16:
                pol = {'kind': 'op-interleave'}
            elif x < 0.22:
                # pre-emption INSIDE source lines that touch shared state (instruction granularity)
                # (cap 1: only the first visit of each point counts -- lazy initialisation runs once)
                cap = sr.choice([1, 1, 3])
                pol = {'kind': 'instr-shot', 'j': sr.randint(1, 10 if cap == 1 else 30), 'cap': cap, 'instr': True}
            elif x < 0.44:
                pol = {'kind': 'bernoulli', 'p': sr.choice([1e-3, 1e-2, 1e-2, 1e-1])}
            elif x < 0.56:
                pol = {'kind': 'pct', 'd': sr.choice([1, 2, 3]), 'expected': expected}
            elif x < 0.64:
                pol = {'kind': 'first-visit', 'q': sr.choice([0.05, 0.2, 0.5])}
            elif x < 0.84:
                pol = {'kind': 'one-shot', 'j': sr.randint(1, 90)}
            else:
                pol = {'kind': 'targeted', 'q': sr.choice([0.1, 0.3, 0.6])}
        if race and clients[0] and clients[0][0]['op'] == 'compile' and clients[1] and clients[1][0]['op'] == 'compile':
            op0 = clients[0][0]
            pc = self.chains.get(op0['extends'], ()) if op0.get('extends') is not None else ()
            mon.TRACE = []
            try:
                steps0 = U.reference_compile(pc, op0, watch_library=True)['steps']
                trace = mon.TRACE
            finally:
                mon.TRACE = None
            u = sr.randint(1, max(2, steps0))
            # half of the time: uniformly among the steps of the construction's own logic (grammar.py, translator.py,
            # expressions/) rather than of its two large sub-engines, the generated meta-parser and the code emitter
            own = [i + 1 for i, fn in enumerate(trace) if ('/sourcer/' in fn and not fn.endswith('/sourcer/parser.py'))]
            # ... or among the steps inside the body of the module being built (the window in which a module could
            # be visible to others before it is complete)
            body = [i + 1 for i, fn in enumerate(trace) if fn.startswith('<' + U.PREFIX) or fn == '<grammar>']
            x = sr.random()
            if body and clients[1][0].get('extends_foreign') and x < 0.8:
                u = sr.choice(body)
            elif own and x < 0.35:
                u = sr.choice(own)
            elif body and x < 0.7:
                u = sr.choice(body)
            pol = {'kind': 'race', 'u': u, 'own_logic_steps': len(own), 'module_body_steps': len(body), 'steps': steps0}
        pol['seed'] = rngm.derive('policy', self.seed)
        watch_lib = any(op['op'] == 'compile' for op in all_ops({'clients': clients}))
        return {
            'prop': self.prop, 'verif_seed': verif_seed, 'index': index, 'run_seed': self.seed,
            'universe': [m.plan_entry() for m in infos],
            'clients': clients, 'probes': probes, 'policy': pol, 'kinds': kinds,
            # texts for modules built by constructions of the run: used for extra probes when such a module's
            # generated source differs from what a pristine process generates for the same description
            'suspect_texts': {str(k): v for k, v in suspects.items()},
            'baseline': baseline, 'watch_library': watch_lib,
            # the first run on a universe builds it with the real Grammar(); the others exec the
            # code generated by an earlier real Grammar() call for the same description
            # (... and so does a run that re-creates modules: what a cache inside Grammar() remembers of the FIRST
            # construction of a description only exists if that construction went through Grammar() in this process)
            'setup': 'grammar' if (index % self.rpu == 0 or any(op.get('recreate') for op in all_ops({'clients': clients}))) else 'exec',
        }


def make_policy(pol, schedule=None):
    if schedule is not None:
        return mon.Replay(schedule['switches'], schedule.get('first'))
    import random
    r = random.Random(pol.get('seed', 0))
    k = pol['kind']
    if k == 'sequential':
        return mon.Sequential()
    if k == 'op-interleave':
        return mon.OpInterleave(r)
    if k == 'bernoulli':
        return mon.Bernoulli(r, pol['p'])
    if k == 'pct':
        return mon.PCT(r, pol['d'], pol['expected'])
    if k == 'targeted':
        return mon.Targeted(r, pol['q'])
    if k == 'first-visit':
        return mon.FirstVisit(r, pol['q'])
    if k == 'one-shot':
        return mon.OneShot(r, pol['j'])
    if k == 'race':
        return mon.RaceAt(pol['u'])
    if k == 'instr-shot':
        p = mon.InstrShot(r, pol['j'])
        p.cap = pol.get('cap', 3)
        return p
    raise ValueError(k)


# ------------------------------------------------------------------------------- execution

def all_ops(plan):
    """Every operation of the plan, nested ones (scripts of callbacks) included."""
    def walk(op):
        yield op
        for act in (op.get('script') or {}).values():
            if isinstance(act, dict) and 'nest' in act:
                yield from walk(act['nest'])
    for ops in plan['clients']:
        for op in ops:
            yield from walk(op)


def static_chains(plan):
    """mod id -> chain of descriptions, from the plan alone (universe + compile operations)."""
    chains = {}
    for m in plan['universe']:
        if m.get('builtin'):
            chains[m['id']] = ('<builtin %s>' % m['builtin'],)
            continue
        chains[m['id']] = (chains[m['extends']] if m['extends'] is not None else ()) + (m['desc'],)
    # compile operations are resolved in client order; ids are unique
    pending = [op for op in all_ops(plan) if op['op'] == 'compile']
    for _ in range(len(pending) + 1):
        for op in pending:
            if op['mod'] in chains:
                continue
            if op.get('extends') is None:
                chains[op['mod']] = (op['desc'],)
            elif op['extends'] in chains:
                chains[op['mod']] = chains[op['extends']] + (op['desc'],)
    return chains


def _client_body(env, t, ops, out):
    ctx = U.ExecCtx(env, t)
    ident = threading.get_ident()
    U._CTX[ident] = ctx
    try:
        for i, op in enumerate(ops):
            env.sim.boundary(t, '%d:%s' % (i, op['op']))
            out.append(U.run_op(env, ctx, op))
    finally:
        U._CTX.pop(ident, None)


def flatten_records(op, rec, where, acc):
    """(where, op, record) for an operation and, recursively, its nested operations."""
    acc.append((where, op, rec))
    sc = op.get('script') or {}
    for sub in rec.get('nested', []):
        key = sub['path'][-1] if sub.get('path') else None
        act = sc.get(key)
        if isinstance(act, dict) and 'nest' in act:
            flatten_records(act['nest'], sub, where + [key], acc)


def simulate(plan, schedule=None, wall_timeout=120.0, attach=None):
    """Run the plan under the simulator.  Returns a result dict with the recorded history;
    `attach(env)` may install engine-specific recorders before the clients start."""
    U.purge_registry()
    gc_was = gc.isenabled()
    gc.disable()
    env = U.Env('sim')
    result = {'violations': [], 'harness': None}
    try:
        chains = static_chains(plan)
        result['chains'] = chains
        for m in plan['universe']:
            try:
                if m.get('builtin'):
                    mod = U.builtin_module(m['builtin'])
                elif plan.get('setup') == 'exec':
                    mod = U.exec_module(chains[m['id']])
                else:
                    mod = U.compile_desc(m['desc'])
            except Exception as e:
                mod = None
                result.setdefault('setup_errors', []).append([m['id'], type(e).__name__, str(e)[:200]])
            env.handles[m['id']] = U.Handle(m['id'], mod, chains[m['id']], m['name'])
        policy = make_policy(plan['policy'], schedule)
        sim = mon.Sim(policy)
        env.sim = sim
        env.policy = policy
        if attach is not None:
            attach(env)
        instr = bool(plan['policy'].get('instr'))
        for h in env.handles.values():
            if h.ok:
                for c in U.generated_codes(h.module):
                    sim.hot |= mon.hot_lines(c, vars(h.module))
                    if instr:
                        sim.hot_strict |= mon.hot_lines(c, vars(h.module), strict=True)
        records = [[] for _ in plan['clients']]
        for ci, ops in enumerate(plan['clients']):
            sim.spawn(lambda t, ops=ops, ci=ci: _client_body(env, t, ops, records[ci]))
        lib = plan.get('watch_library')
        if lib:
            mon.watch_module_bodies(True)
            mon.watch(mon.library_codes())
            import sys as _sys
            for mname in [n for n in list(_sys.modules) if n == 'sourcer' or n.startswith('sourcer.') or n == 'outsourcer']:
                m = _sys.modules[mname]
                for c in mon.codes_of_module(m):
                    sim.hot |= mon.hot_lines(c, vars(m))
                    if instr:
                        sim.hot_strict |= mon.hot_lines(c, vars(m), strict=True)
        env.instr = instr
        if env.instr:
            sim.enable_instr()
        try:
            sim.run(wall_timeout)
        finally:
            sim.disable_instr()
            if lib:
                mon.unwatch(mon.library_codes())
                mon.watch_module_bodies(False)
        env.policy = None
        probe_records = U.run_inline(env, lambda ctx: [U.run_op(env, ctx, op) for op in plan['probes']])
        # a lead, not a verdict: a module built during the run whose generated source differs from the
        # source a pristine process generates for the same description gets a full set of extra probes
        extra_ops = []
        for mid, src in sorted(env.built_sources.items()):
            h = env.handles.get(mid)
            if src is None or h is None or not h.ok:
                continue
            want = U.pristine_source(chains.get(mid, ())) if chains.get(mid) else None
            if want is None or want == src:
                continue
            env.count('built_module_source_differs_from_pristine')
            for t in (plan.get('suspect_texts') or {}).get(str(mid), []):
                extra_ops.append({'op': 'parse', 'mod': mid, 'entry': 'parse', 'text': t, 'pos': 0, 'full': True})
                extra_ops.append({'op': 'parse', 'mod': mid, 'entry': 'parse', 'text': t, 'pos': 0, 'full': False})
        extra_records = U.run_inline(env, lambda ctx: [U.run_op(env, ctx, op) for op in extra_ops]) if extra_ops else []
        flat = []
        for ci, ops in enumerate(plan['clients']):
            for oi, (op, rec) in enumerate(zip(ops, records[ci])):
                flatten_records(op, rec, ['client', ci, oi], flat)
        for pi, (op, rec) in enumerate(zip(plan['probes'], probe_records)):
            flatten_records(op, rec, ['probe', pi], flat)
        for pi, (op, rec) in enumerate(zip(extra_ops, extra_records)):
            flatten_records(op, rec, ['probe-after-source-divergence', pi], flat)
        result['flat'] = flat
        result['records'] = records
        result['probe_records'] = probe_records
        result['schedule'] = {'first': getattr(sim, 'first_id', None), 'switches': sim.switches}
        result['steps'] = sim.step
        result['switches'] = sum(1 for s in sim.switches if s[1] != -1)
        if result['switches']:
            env.count('preempt', result['switches'])
        if sim.hot_hits:
            env.count('shared_state_lines_visited_under_targeted_policy', sim.hot_hits)
        if sim.ipoint_hits:
            env.count('instruction_points_inside_shared_state_lines_visited', sim.ipoint_hits)
        if sim.body_codes:
            env.count('module_bodies_under_construction_made_preemptible', sim.body_codes)
        if sim.lock_events:
            env.count('simulated_locks_taken', sim.lock_events)
        if sim.lock_blocks:
            env.count('simulated_lock_found_taken:baton_handed_on', sim.lock_blocks)
        n_instr = sum(1 for s in sim.switches if len(s) > 3)
        if n_instr:
            env.count('preempt_inside_a_source_line', n_instr)
        result['env'] = env
        result['sig'] = rngm.digest([list(x) for x in sim.sig])
        from simkit.fp import norm_text
        result['pairs'] = sorted({(norm_text(a), norm_text(b)) for a, b in sim.pairs})
        result['log_digest'] = rngm.digest([_norm_log(sim.log), _outs(records), _outs([probe_records])])
    except mon.HarnessError as e:
        result['harness'] = repr(e)
    finally:
        if attach is not None and hasattr(attach, 'detach'):
            attach.detach(env)
        U.purge_registry()
        env.handles.clear()
        del env.kept[:]
        env.last_raw.clear()
        gc.collect()
        if gc_was:
            gc.enable()
    result['counters'] = env.counters
    return result


def judge_isolation(plan, result, refs=None):
    """C18's oracle over the recorded history: every parse outcome equals the outcome of the same
    operation executed alone (fresh modules, no history, no concurrency, no nesting)."""
    refs = {} if refs is None else refs
    env = result['env']
    chains = result['chains']
    judged = 0
    mismatches = []
    for where, op, rec in result['flat']:
        if op['op'] == 'parse':
            if rec['out'].get('skipped'):
                continue
            chain = chains.get(op['mod'])
            if chain is None:
                continue
            key = (chain, U.op_key(op))
            ref = refs.get(key)
            if ref is None:
                ref = refs[key] = U.reference_outcome(chain, U.strip_nests(op))
            judged += 1
            if rec['out'] != ref['out']:
                mismatches.append((where, op, rec, ref, chain))
            elif rec['fired'] != ref['fired'] and not rec.get('nested'):
                env.count('callback_sequence_differs')
        elif op['op'] == 'compile':
            parent_chain = chains.get(op['extends'], ()) if op.get('extends') is not None else ()
            key = (parent_chain, 'compile', op['desc'])
            ref = refs.get(key)
            if ref is None:
                ref = refs[key] = U.reference_compile(parent_chain, op)
            # not a verdict: C18 speaks of parse calls and of existing modules; what a
            # construction itself returns under interleaving is recorded as a probe only
            if ('compiled' in rec['out']) != ('compiled' in ref['out']):
                env.count('construction_outcome_differs')
    out = []
    for where, op, rec, ref, chain in mismatches:
        # confirm against the definitive reference: fresh modules from the real Grammar()
        dref = U.reference_outcome(chain, U.strip_nests(op), definitive=True)
        if dref['out'] == rec['out']:
            # The simulated call agrees with a module built by Grammar() *now* but not with the
            # module exec'ed from the source that an earlier, (nearly) pristine Grammar() call
            # generated.  Either exec-of-emitted-source is not faithful (C11's business), or what
            # Grammar() generates for this description depends on what was constructed before.
            # The second is C18's: exonerate the first by exec'ing the source generated *now*.
            eref = U.reference_outcome(chain, U.strip_nests(op), exec_now=True)
            if eref['out'] != dref['out']:
                env.count('fastref_disagreement')
                continue
            env.count('construction_history_dependence')
            out.append({'check': 'isolation', 'sub': 'construction-history', 'where': where, 'op': U.strip_nests(op),
                        'sim': rec['out'], 'ref': ref['out'],
                        'note': 'the module Grammar() builds for this description now answers differently from '
                                'the module built for the same description before other constructions ran'})
            continue
        out.append({'check': 'isolation', 'where': where, 'op': U.strip_nests(op),
                    'sim': rec['out'], 'ref': dref['out']})
    result['judged'] = result.get('judged', 0) + judged
    return out


def _norm_log(log):
    from simkit.fp import norm_text
    return [[norm_text(x) if isinstance(x, str) else x for x in e] for e in log]


def _outs(records):
    return [[[r['out'], r['fired'], r['steps'], _outs([r.get('nested', [])])] for r in recs] for recs in records]


def strip_private(plan):
    """The plan as written to replay files (generator-private keys removed)."""
    def clean(op):
        out = {k: v for k, v in op.items() if not k.startswith('_')}
        if 'script' in out:
            out['script'] = {k: ({'nest': clean(v['nest'])} if isinstance(v, dict) and 'nest' in v else v)
                             for k, v in out['script'].items()}
        return out
    p = dict(plan)
    p['clients'] = [[clean(op) for op in ops] for ops in plan['clients']]
    p['probes'] = [clean(op) for op in plan['probes']]
    return p



def minimise(doc, execute, finding_key, budget_s=60):
    import copy
    import time
    from simkit.shrink import ddmin
    deadline = time.time() + budget_s
    want = doc['key']
    state = {'plan': copy.deepcopy(doc['plan']), 'schedule': copy.deepcopy(doc['schedule']) or {'first': 0, 'switches': []}}
    last = {}

    def fails(plan, schedule):
        # every candidate is executed in a freshly forked child (pristine library state)
        from simkit import runner

        def run():
            res = execute(plan, schedule)
            if res.get('harness'):
                return None
            return [(finding_key({'violation': v}), v) for v in res['violations']]
        try:
            out = runner.fork_call(run, timeout=300)
        except runner.ForkError:
            return False
        for k, v in out or []:
            if k == want:
                last['v'] = v
                return True
        return False

    if not (fails(state['plan'], state['schedule']) or fails(state['plan'], state['schedule'])):
        doc['minimise_note'] = 'recorded schedule did not reproduce inside the minimiser'
        return doc
    doc['confirmed_in_process'] = True

    def try_plan(p, s=None):
        s = state['schedule'] if s is None else s
        if fails(p, s):
            state['plan'], state['schedule'] = p, s
            return True
        return False

    progress = True
    while progress and time.time() < deadline:
        progress = False
        # 1. switches
        sw = state['schedule']['switches']
        if sw:
            new = ddmin(sw, lambda c: fails(state['plan'], dict(state['schedule'], switches=c)), deadline)
            if len(new) < len(sw):
                state['schedule'] = dict(state['schedule'], switches=new)
                progress = True
        # 2. probes
        pr = state['plan']['probes']
        if pr:
            new = ddmin(pr, lambda c: fails(dict(state['plan'], probes=c), state['schedule']), deadline)
            if len(new) < len(pr):
                state['plan'] = dict(state['plan'], probes=new)
                progress = True
        # 3. whole clients, then operations
        for ci in range(len(state['plan']['clients'])):
            ops = state['plan']['clients'][ci]
            if not ops:
                continue

            def with_ops(c, ci=ci):
                cl = list(state['plan']['clients'])
                cl[ci] = c
                return dict(state['plan'], clients=cl)
            new = ddmin(ops, lambda c: fails(with_ops(c), state['schedule']), deadline)
            if len(new) < len(ops):
                state['plan'] = with_ops(new)
                progress = True
        # 4. script entries
        for ci, ops in enumerate(state['plan']['clients']):
            for oi, op in enumerate(ops):
                for key in sorted((op.get('script') or {})):
                    if time.time() >= deadline:
                        break
                    p = copy.deepcopy(state['plan'])
                    del p['clients'][ci][oi]['script'][key]
                    if try_plan(p):
                        progress = True
        # 5. texts
        for ci, ops in enumerate(state['plan']['clients']):
            for oi, op in enumerate(ops):
                if op['op'] != 'parse' or not isinstance(op['text'], str) or len(op['text']) < 2 or time.time() >= deadline:
                    continue
                for cut in (len(op['text']) // 2, len(op['text']) - 1):
                    p = copy.deepcopy(state['plan'])
                    p['clients'][ci][oi]['text'] = op['text'][:cut]
                    p['clients'][ci][oi].pop('script', None) if False else None
                    if try_plan(p):
                        progress = True
                        break
    fails(state['plan'], state['schedule'])
    doc = dict(doc, plan=state['plan'], schedule=state['schedule'], minimised=True)
    if 'v' in last:
        doc['violation'] = last['v']
    return doc

"""Engine `isolation` -- C18: parse calls are isolated from each other (DESIGN 4.1).

A universe of 1-4 generated modules and 1-4 clients executing operation lists under a seeded
schedule with fault kinds preempt, user_abort, reenter, scramble, gc, name_reuse, ctor_fail.
Oracle: every operation's outcome fingerprint equals the fingerprint of the same operation
executed alone in fresh modules compiled from the same descriptions.
"""
import json

from simkit import rng as rngm, universe as U
from engines import common as C
from engines.common import flatten_records, static_chains

PROP = 'C18'


def execute(plan, schedule=None, refs=None):
    res = C.simulate(plan, schedule)
    if res.get('harness'):
        return res
    res['violations'] = C.judge_isolation(plan, res, refs)
    res['counters'] = dict(res['env'].counters)
    return res


RUNS_PER_UNIVERSE = C.RUNS_PER_UNIVERSE


def prepare(verif_seed, index):
    """Warm the universe-level caches (generated code of every chain) in the group process."""
    useed = rngm.derive('universe', verif_seed, PROP, index // C.RUNS_PER_UNIVERSE)
    infos = C.gen_universe(rngm.stream(useed, 'universe'))
    C.warm_hot_lines(infos)


def run_one(verif_seed, index, tier='quick'):
    seed = rngm.run_seed(verif_seed, PROP, index)
    useed = rngm.derive('universe', verif_seed, PROP, index // C.RUNS_PER_UNIVERSE)
    pl = C.Planner(seed, useed, PROP, scale=C.scale_of(tier, index, C.RUNS_PER_UNIVERSE))
    plan = pl.plan(index, verif_seed)
    if plan is None:
        return {'index': index, 'empty': True}
    plan = C.strip_private(plan)
    res = execute(plan, refs=pl.refs)
    res['index'] = index
    res['plan'] = plan
    return res


def minimise(doc, budget_s=60):
    return C.minimise(doc, execute, finding_key, budget_s)


# ------------------------------------------------------------------------------- runner interface

ASSUMPTIONS = [
    'pre-emption happens at line boundaries of Python code of the system under test; C-level '
    'operations (dict/list methods, re.match) are atomic under the GIL of CPython 3.12',
    'the reference ("the same operation executed alone") runs the same sourcer code, so a change that '
    'alters what sourcer computes but keeps calls independent is not reported here',
    'a name is never re-bound while another client\'s Grammar() call extends that same name',
    'sampling, not proof: a clean batch is evidence',
]


def _classify(out):
    if 'ok' in out:
        return 'value'
    if 'abort' in out:
        return 'user_abort'
    if 'compiled' in out:
        return 'compiled'
    if 'err' in out:
        return out['err'] if out['err'] in ('ParseError', 'PartialParseError', 'nontermination') else 'other-exception'
    return 'other'


def summarise(r):
    if r.get('empty'):
        return {'index': r['index'], 'empty': True}
    if r.get('harness'):
        return {'index': r['index'], 'harness': r['harness']}
    plan = r['plan']
    n_ops = 0
    per_mod = {}
    classes = {}
    acc = []
    for ci, ops in enumerate(plan['clients']):
        for oi, (op, rec) in enumerate(zip(ops, r['records'][ci])):
            flatten_records(op, rec, [ci, oi], acc)
    for where, op, rec in acc:
        n_ops += 1
        if op['op'] == 'parse':
            per_mod[op['mod']] = per_mod.get(op['mod'], 0) + 1
        c = _classify(rec['out'])
        classes[c] = classes.get(c, 0) + 1
    counters = r['counters']
    faults = sum(counters.get(k, 0) for k in ('preempt', 'user_abort', 'reenter', 'scramble', 'gc',
                                                'name_reuse', 'ctor_fail', 'postprocess', 'clock_jump', 'burst'))
    nontrivial = faults > 0 and any(v >= 2 for v in per_mod.values())
    ops_key = sorted(U.op_key(op) if op['op'] == 'parse' else json.dumps(op, sort_keys=True)
                     for ops in plan['clients'] for op in ops)
    dk = rngm.digest([[m['desc'] for m in plan['universe']], ops_key, r['sig']])
    s = {
        'index': r['index'], 'counters': counters, 'steps': r['steps'], 'switches': r['switches'],
        'judged': r['judged'], 'policy': plan['policy']['kind'], 'baseline': plan.get('baseline', False),
        'sig': r['sig'], 'log_digest': r['log_digest'], 'nontrivial': nontrivial, 'distinct': dk,
        'n_ops': n_ops, 'classes': classes, 'n_clients': len(plan['clients']),
        'n_modules': len(plan['universe']), 'setup': plan.get('setup'),
        'chain_len': max([len(static_chains(plan)[m['id']]) for m in plan['universe']] or [0]),
        'pairs': [list(x) for x in r.get('pairs', [])][:200],
        'corpus': [m['corpus'] for m in plan['universe'] if m.get('corpus')],
    }
    if r['violations']:
        s['violations'] = [{'index': r['index'], 'violation': r['violations'][0], 'plan': plan,
                            'schedule': r['schedule']}]
    if r['index'] % 97 == 0:
        s['sample'] = {'index': r['index'], 'policy': plan['policy'], 'kinds': plan['kinds'],
                       'universe': [m['desc'] for m in plan['universe']][:2],
                       'clients': [[_brief(op) for op in ops] for ops in plan['clients']],
                       'switches_taken': r['switches'], 'faults_fired': counters}
    return s


def _brief(op):
    if op['op'] == 'parse':
        b = {'parse': op['mod'], 'entry': op['entry'], 'text': (op['text'] if isinstance(op['text'], list) else op['text'][:40]), 'pos': op['pos'], 'full': op['full']}
        if op.get('script'):
            b['script'] = {k: ('nest' if isinstance(v, dict) else v) for k, v in op['script'].items()}
        return b
    if op['op'] == 'compile':
        return {'compile': op['mod'], 'name': op.get('name'), 'extends': op.get('extends'), 'fails': op.get('fails', False)}
    return op


def new_aggregate():
    return {'counters': {}, 'steps': 0, 'switches': 0, 'judged': 0, 'policies': {}, 'classes': {},
            'distinct': set(), 'distinct_nontrivial': set(), 'sigs': set(), 'digests': {}, 'samples': [],
            'baseline_runs': 0, 'baseline_judged': 0, 'ops': 0, 'empty': 0, 'setup': {}, 'chain_len': {},
            'clients': {}, 'pairs': set(), 'corpus': {}}


def aggregate(agg, s):
    if s.get('empty'):
        agg['empty'] += 1
        return
    if s.get('harness'):
        agg['harness'].append('run %s: %s' % (s['index'], s['harness']))
        return
    agg['runs'] += 1
    for k, v in s['counters'].items():
        agg['counters'][k] = agg['counters'].get(k, 0) + v
    for k, v in s['classes'].items():
        agg['classes'][k] = agg['classes'].get(k, 0) + v
    agg['steps'] += s['steps']
    agg['switches'] += s['switches']
    agg['judged'] += s['judged']
    agg['ops'] += s['n_ops']
    agg['policies'][s['policy']] = agg['policies'].get(s['policy'], 0) + 1
    agg['setup'][str(s['setup'])] = agg['setup'].get(str(s['setup']), 0) + 1
    agg['chain_len'][str(s['chain_len'])] = agg['chain_len'].get(str(s['chain_len']), 0) + 1
    agg['clients'][str(s['n_clients'])] = agg['clients'].get(str(s['n_clients']), 0) + 1
    agg['distinct'].add(s['distinct'])
    for w in s.get('corpus', []):
        agg['corpus'][w] = agg['corpus'].get(w, 0) + 1
    agg['sigs'].add(s['sig'])
    for a, b in s.get('pairs', []):
        agg['pairs'].add((a, b))
    if s['nontrivial']:
        agg['distinct_nontrivial'].add(s['distinct'])
    if s['baseline']:
        agg['baseline_runs'] += 1
        agg['baseline_judged'] += s['judged']
    if len(agg['digests']) < 400:
        agg['digests'][s['index']] = s['log_digest']
    if 'sample' in s and len(agg['samples']) < 4:
        agg['samples'].append(s['sample'])
    for v in s.get('violations', []):
        agg['violations'].append(v)


def finding_key(v):
    viol = v['violation']
    return '%s:%s' % (viol.get('check'), viol.get('op', {}).get('op'))


def coverage(agg):
    samples = agg['samples'] or [{'note': 'no sampled run in this batch'}]
    return {
        'evaluations': agg['runs'],
        'distinct_nontrivial': len(agg['distinct_nontrivial']),
        'rule': 'one evaluation = one simulated run (universe of 1-4 real generated modules, 1-4 scripted '
                'clients, one seeded schedule); non-trivial = at least one fault kind fired AND at least two '
                'parse operations touched one module with colliding texts; distinct by (descriptions, '
                'operation multiset, schedule signature = hash of (task, op, code name, line) at every switch)',
        'samples': samples,
        'distinct_runs': len(agg['distinct']),
        'distinct_schedule_signatures': len(agg['sigs']),
        'distinct_overlap_pairs': len(agg['pairs']),
        'overlap_pairs_note': 'pair = (function the pre-empted client was executing, function the resumed client is parked in) '
                              'at a switch; rule functions carry the generated rule names, so the count grows with the universes',
        'overlap_pairs_driver_only': sorted([list(p) for p in agg['pairs'] if not (p[0].startswith('_try_') or p[1].startswith('_try_')
                                                                                    or p[0].startswith('_parse_function') or p[1].startswith('_parse_function'))])[:60],
        'simulated_steps_total': agg['steps'],
        'simulated_time_note': 'the only clock is the step counter (one step = one line event of the system under test); the virtual clock that the '
                               'system under test reads (simkit/clock.py) advances 1 us per step plus the injected clock jumps',
        'simulated_virtual_seconds_without_jumps': round(agg['steps'] * 1e-6, 3),
        'operations_executed': agg['ops'],
        'operations_judged_against_isolated_reference': agg['judged'],
        'faults_fired_by_kind': {k: agg['counters'].get(k, 0) for k in
                                 ('preempt', 'user_abort', 'reenter', 'scramble', 'gc', 'name_reuse', 'ctor_fail', 'postprocess', 'clock_jump', 'burst')},
        'probes': {k: v for k, v in agg['counters'].items()
                   if k not in ('preempt', 'user_abort', 'reenter', 'scramble', 'gc', 'name_reuse', 'ctor_fail', 'postprocess', 'clock_jump', 'burst')},
        'outcome_classes': agg['classes'],
        'policies': agg['policies'],
        'clients_per_run': agg['clients'],
        'longest_extension_chain_per_run': agg['chain_len'],
        'setup_mode': agg['setup'],
        'runs_on_the_repositorys_own_grammars': agg['corpus'],
        'fault_free_single_client_baseline': {'runs': agg['baseline_runs'], 'judged': agg['baseline_judged']},
        'universes_that_did_not_compile': agg['empty'],
        'real_vs_stub': {
            'real': ['every generated module in full (rule bodies, _run, finalisation, error construction)',
                     'sourcer.Grammar / translator / expressions / shipped meta-parser (monitored while Grammar() is an operation)',
                     'outsourcer', 'CPython import system and sys.modules', 'OS threads'],
            'stub': ['users: client threads and inline-Python callbacks are scripted',
                     'thread scheduler: a baton decides who runs, not the GIL'],
        },
    }



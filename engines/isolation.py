"""Engine `isolation` -- C18: parse calls are isolated from each other (DESIGN 4.1).

A universe of 1-4 generated modules and 1-4 clients executing operation lists under a seeded
schedule with fault kinds preempt, user_abort, reenter, scramble, gc, name_reuse, ctor_fail.
Oracle: every operation's outcome fingerprint equals the fingerprint of the same operation
executed alone in fresh modules compiled from the same descriptions.
"""
import gc
import json
import threading

from simkit import mon, rng as rngm, spec, universe as U

PROP = 'C18'
KINDS = ['preempt', 'user_abort', 'reenter', 'scramble', 'gc', 'name_reuse', 'ctor_fail', 'compile']


# ------------------------------------------------------------------------------- generation

class ModInfo:
    """Generator-side knowledge about one module of the universe (not part of the plan)."""

    def __init__(self, id, name, extends, spec_, gen, parent=None):
        self.id = id
        self.name = name
        self.extends = extends
        self.spec = spec_
        self.gen = gen
        self.parent = parent
        self.desc = spec.render_module(spec_, name, parent.name if parent else None)
        self.chain = (parent.chain if parent else ()) + (self.desc,)
        # effective rules
        self.rules = dict(parent.rules) if parent else {}
        self.super_rules = dict(parent.rules) if parent else {}
        own = []
        for it in spec_['items']:
            if it['k'] in ('rule', 'class'):
                self.rules[it['name']] = it
                if not it.get('ignore') and not it.get('params'):
                    own.append(it)
        self.own = own
        gaps = list(parent.gaps) if parent else []
        for it in spec_['items']:
            if it['k'] == 'ignore' or it.get('ignore'):
                gaps += spec.IGNORE_SAMPLES.get(it['expr'][1], [])
        self.gaps = gaps
        first = [it for it in spec_['items'] if it['k'] in ('rule', 'class')]
        if 'start' in self.rules:
            self.start = self.rules['start']
        elif parent is not None:
            self.start = parent.start
        else:
            self.start = first[0]
        self.alphabet = sorted(set(''.join(gen.lits)) | set('ab1 ')) + (['\n'] if any('\n' in g for g in gaps) else [])
        self.texts = []

    def plan_entry(self):
        return {'id': self.id, 'name': self.name, 'extends': self.extends, 'desc': self.desc}


def gen_universe(r):
    infos = []
    n_extra = r.choice([0, 0, 1, 1, 2])
    named0 = r.random() < 0.75
    s0, g0 = spec.gen_root(r, named0)
    m0 = ModInfo(0, U.PREFIX + 'g0' if named0 else None, None, s0, g0)
    infos.append(m0)
    if named0 and r.random() < 0.55:
        s1, g1 = spec.gen_child(r, g0, ignore=r.choice([None, None, None, 'named']))
        m1 = ModInfo(1, U.PREFIX + 'g1', 0, s1, g1, parent=m0)
        infos.append(m1)
        if r.random() < 0.35:
            s2, g2 = spec.gen_child(r, g1)
            infos.append(ModInfo(2, U.PREFIX + 'g2', 1, s2, g2, parent=m1))
    for _ in range(n_extra):
        if len(infos) >= 4:
            break
        i = len(infos)
        named = r.random() < 0.5
        s, g = spec.gen_root(r, named, n_rules=r.randint(2, 5))
        infos.append(ModInfo(i, U.PREFIX + 'g%d' % i if named else None, None, s, g))
    # drop modules whose chain does not compile (both sides of the oracle would agree on the
    # failure and the run would explore nothing)
    good = []
    bad = set()
    for m in infos:
        if m.extends in bad:
            bad.add(m.id)
            continue
        codes = U.chain_codes(m.chain)
        if isinstance(codes, tuple):
            bad.add(m.id)
            continue
        good.append(m)
    return good


def make_texts(r, m, n=3):
    sm = spec.Sampler(r, m.rules, m.super_rules)
    out = []
    for _ in range(n):
        toks = sm.item(m.start, 0)
        t = spec.join_tokens(r, toks, m.gaps)
        if len(t) > 60:
            t = t[:60]
        out.append(t)
    # one longer, multi-line text now and then: reaches the excerpt code on error paths
    if m.gaps and r.random() < 0.2:
        toks = []
        for _ in range(8):
            toks += sm.item(m.start, 0)
        out.append(spec.join_tokens(r, toks, m.gaps + ['\n'])[:400])
    fam = []
    for t in out:
        fam.append(t)
        fam.append(spec.collide(r, t, m.alphabet, m.gaps))
        if r.random() < 0.5:
            fam.append(spec.collide(r, t, m.alphabet, m.gaps))
        if r.random() < 0.5:
            fam.append(spec.mutate_text(r, t, m.alphabet))
    return fam


RUNS_PER_UNIVERSE = 6


class Planner:
    def __init__(self, seed, useed=None):
        self.seed = seed
        self.useed = seed if useed is None else useed
        self.ur = rngm.stream(self.useed, 'universe')
        self.tr = rngm.stream(self.useed, 'texts')
        self.wr = rngm.stream(seed, 'workload')
        self.fr = rngm.stream(seed, 'faults')
        self.sr = rngm.stream(seed, 'schedule')
        self.refs = {}
        self.infos = {}
        self.chains = {}

    def ref(self, op):
        chain = self.chains[op['mod']]
        key = (chain, U.op_key(op))
        hit = self.refs.get(key)
        if hit is None:
            hit = self.refs[key] = U.reference_outcome(chain, U.strip_nests(op))
        return hit

    def gen_parse(self, mid, kinds, depth=0):
        wr, fr = self.wr, self.fr
        m = self.infos[mid]
        text = wr.choice(m.texts)
        entry = 'parse'
        if m.own and wr.random() < 0.3:
            it = wr.choice(m.own)
            entry = ('class:' if it['k'] == 'class' else 'rule:') + it['name']
        pos = 0
        if text and wr.random() < 0.2:
            pos = wr.randrange(0, min(len(text), 6))
        full = wr.random() < 0.8
        op = {'op': 'parse', 'mod': mid, 'entry': entry, 'text': text, 'pos': pos, 'full': full}
        rec = self.ref(op)
        fired = rec['fired']
        steps = rec['steps']
        script = {}
        terminated = rec['out'].get('err') != 'nontermination'
        if fired and terminated:
            if 'user_abort' in kinds and fr.random() < 0.25:
                tag, p, _ = fr.choice(fired)
                script['%s@%s' % (tag, p)] = 'abort'
            if 'reenter' in kinds and depth < 2 and fr.random() < 0.35:
                tag, p, _ = fr.choice(fired)
                key = '%s@%s' % (tag, p)
                if key not in script:
                    # nested parse: usually the same module, a colliding text
                    nmid = mid if fr.random() < 0.7 else fr.choice(sorted(self.infos))
                    sub = self.gen_parse(nmid, kinds, depth + 1)
                    script[key] = {'nest': sub}
                    steps += sub.get('_steps', 0)
            preds = [f for f in fired if f[2] == 'p']
            if preds and fr.random() < 0.15:
                tag, p, _ = fr.choice(preds)
                key = '%s@%s' % (tag, p)
                if key not in script:
                    script[key] = 'false'
        if script:
            op['script'] = script
            rec2 = self.ref(op)
            steps += rec2['steps']
        if terminated:
            op['budget'] = min(U.SIM_BUDGET_CAP, 200 * steps + 100_000)
        else:
            op['budget'] = U.REF_BUDGET
        op['_steps'] = steps
        return op

    def gen_compile(self, kinds, next_id, forbidden_names, client_names):
        """A Grammar() construction as an operation of a client."""
        r = self.wr
        # a module whose name (or an ancestor's name) has been re-bound can still be parsed with,
        # but is not extended any more: Grammar() re-reads every ancestor *by name*, so such a
        # child would be wired half to the old and half to the new ancestor (DESIGN 4.1 bound)
        def names_of(m):
            out = set()
            while m is not None:
                out.add(m.name)
                m = m.parent
            return out

        def stale(m):
            while m is not None:
                if getattr(m, 'shadowed', False):
                    return True
                m = m.parent
            return False
        usable = [m for m in self.infos.values() if m.name and not stale(m)
                  and getattr(m, 'owner', client_names) == client_names]
        parents = [m for m in usable if not (names_of(m) & forbidden_names)]
        victims = [m for m in usable if m.name not in forbidden_names and m.parent is None]
        named_roots = parents
        choice = r.random()
        if named_roots and choice < 0.35:
            parent = r.choice(sorted(named_roots, key=lambda m: m.id))
            s, g = spec.gen_child(r, parent.gen)
            info = ModInfo(next_id, U.PREFIX + 'g%d' % next_id, parent.id, s, g, parent=parent)
        elif victims and 'name_reuse' in kinds and choice < 0.6:
            victim = r.choice(sorted(victims, key=lambda m: m.id))
            s, g = spec.gen_root(r, True, n_rules=r.randint(2, 4))
            info = ModInfo(next_id, victim.name, None, s, g)
            info.victim = victim
        else:
            named = r.random() < 0.6
            s, g = spec.gen_root(r, named, n_rules=r.randint(2, 4))
            info = ModInfo(next_id, U.PREFIX + 'g%d' % next_id if named else None, None, s, g)
        op = {'op': 'compile', 'mod': next_id, 'desc': info.desc, 'name': info.name, 'extends': info.extends}
        if 'ctor_fail' in kinds and r.random() < 0.25:
            # a construction that fails half-way: a Python section that raises at exec time
            info.spec['items'].append({'k': 'py', 'code': 'raise RuntimeError("ctor_fail")'})
            info.desc = spec.render_module(info.spec, info.name, info.parent.name if info.parent else None)
            info.chain = (info.parent.chain if info.parent else ()) + (info.desc,)
            op['desc'] = info.desc
            op['fails'] = True
        return op, info

    def plan(self, index, verif_seed):
        ur, wr, fr, sr = self.ur, self.wr, self.fr, self.sr
        infos = gen_universe(ur)
        if not infos:
            return None
        for m in infos:
            self.infos[m.id] = m
            self.chains[m.id] = m.chain
            m.texts = make_texts(self.tr, m)
        baseline = fr.random() < 0.08
        if baseline:
            kinds = []
            n_clients = 1
        else:
            kinds = [k for k in KINDS if fr.random() < 0.7]
            n_clients = wr.choice([1, 2, 2, 3, 3, 4])
        hot = wr.choice(sorted(self.infos))
        clients = []
        next_id = max(self.infos) + 1
        # names (re)defined by compile operations, per client, to keep the one documented bound:
        # a name is never re-bound while another client's compile extends that same name
        defined_by = {}
        extended_by = {}
        for ci in range(n_clients):
            ops = []
            n_ops = wr.randint(1, 6)
            for _ in range(n_ops):
                x = wr.random()
                live = sorted(self.infos)
                if 'compile' in kinds and x < 0.12 and next_id < 9:
                    forbidden = set()
                    for cj, names in extended_by.items():
                        if cj != ci:
                            forbidden |= names
                    for cj, names in defined_by.items():
                        if cj != ci:
                            forbidden |= names
                    op, info = self.gen_compile(kinds, next_id, forbidden, ci)
                    # the child's parent name must not be re-bound by another client
                    anc = info.parent
                    while anc is not None:
                        extended_by.setdefault(ci, set()).add(anc.name)
                        anc = anc.parent
                    if info.name:
                        defined_by.setdefault(ci, set()).add(info.name)
                    ok = not isinstance(U.chain_codes(info.chain), tuple)
                    if op.get('fails') or not ok:
                        op['fails'] = True
                    ops.append(op)
                    self.chains[next_id] = info.chain
                    if ok and not op.get('fails'):
                        if getattr(info, 'victim', None) is not None:
                            info.victim.shadowed = True
                        info.texts = make_texts(wr, info, n=2)
                        info.owner = ci
                        self.infos[next_id] = info
                    next_id += 1
                    continue
                if 'scramble' in kinds and x < 0.2 and ops and ops[-1]['op'] == 'parse':
                    ops.append({'op': 'scramble'})
                    continue
                if 'gc' in kinds and x < 0.25:
                    ops.append({'op': 'gc'})
                    continue
                # a parse: mostly on the hot module so that calls collide
                cands = [i for i in live if getattr(self.infos[i], 'owner', ci) == ci]
                mid = hot if (hot in cands and wr.random() < 0.65) else wr.choice(cands)
                ops.append(self.gen_parse(mid, kinds))
            clients.append(ops)
        probes = []
        for mid in sorted(self.infos):
            m = self.infos[mid]
            for t in m.texts[:2]:
                probes.append({'op': 'parse', 'mod': mid, 'entry': 'parse', 'text': t, 'pos': 0, 'full': True})
        expected = sum(op.get('_steps', 0) for ops in clients for op in ops) + 1
        if n_clients == 1 or 'preempt' not in kinds:
            pol = {'kind': 'sequential'} if (n_clients == 1 or sr.random() < 0.5) else {'kind': 'op-interleave'}
        else:
            x = sr.random()
            if x < 0.05:
                pol = {'kind': 'sequential'}
            elif x < 0.2:
                pol = {'kind': 'op-interleave'}
            elif x < 0.55:
                pol = {'kind': 'bernoulli', 'p': sr.choice([1e-3, 1e-2, 1e-2, 1e-1])}
            elif x < 0.75:
                pol = {'kind': 'pct', 'd': sr.choice([1, 2, 3]), 'expected': expected}
            else:
                pol = {'kind': 'targeted', 'q': sr.choice([0.02, 0.1, 0.3])}
        pol['seed'] = rngm.derive('policy', self.seed)
        watch_lib = any(op['op'] == 'compile' for ops in clients for op in ops)
        return {
            'prop': PROP, 'verif_seed': verif_seed, 'index': index, 'run_seed': self.seed,
            'universe': [m.plan_entry() for m in infos],
            'clients': clients, 'probes': probes, 'policy': pol, 'kinds': kinds,
            'baseline': baseline, 'watch_library': watch_lib,
            # the first run on a universe builds it with the real Grammar(); the others exec the
            # code generated by an earlier real Grammar() call for the same description
            'setup': 'grammar' if index % RUNS_PER_UNIVERSE == 0 else 'exec',
        }


def make_policy(pol, schedule=None):
    if schedule is not None:
        return mon.Replay(schedule['switches'], schedule.get('first'))
    import random
    r = random.Random(pol.get('seed', 0))
    k = pol['kind']
    if k == 'sequential':
        return mon.Sequential()
    if k == 'op-interleave':
        return mon.OpInterleave(r)
    if k == 'bernoulli':
        return mon.Bernoulli(r, pol['p'])
    if k == 'pct':
        return mon.PCT(r, pol['d'], pol['expected'])
    if k == 'targeted':
        return mon.Targeted(r, pol['q'])
    raise ValueError(k)


# ------------------------------------------------------------------------------- execution

def static_chains(plan):
    """mod id -> chain of descriptions, from the plan alone (universe + compile operations)."""
    chains = {}
    for m in plan['universe']:
        chains[m['id']] = (chains[m['extends']] if m['extends'] is not None else ()) + (m['desc'],)
    # compile operations are resolved in client order; ids are unique
    pending = [op for ops in plan['clients'] for op in ops if op['op'] == 'compile']
    for _ in range(len(pending) + 1):
        for op in pending:
            if op['mod'] in chains:
                continue
            if op.get('extends') is None:
                chains[op['mod']] = (op['desc'],)
            elif op['extends'] in chains:
                chains[op['mod']] = chains[op['extends']] + (op['desc'],)
    return chains


def _client_body(env, t, ops, out):
    ctx = U.ExecCtx(env, t)
    ident = threading.get_ident()
    U._CTX[ident] = ctx
    try:
        for i, op in enumerate(ops):
            env.sim.boundary(t, '%d:%s' % (i, op['op']))
            out.append(U.run_op(env, ctx, op))
    finally:
        U._CTX.pop(ident, None)


def flatten_records(op, rec, where, acc):
    """(where, op, record) for an operation and, recursively, its nested operations."""
    acc.append((where, op, rec))
    sc = op.get('script') or {}
    for sub in rec.get('nested', []):
        key = sub['path'][-1] if sub.get('path') else None
        act = sc.get(key)
        if isinstance(act, dict) and 'nest' in act:
            flatten_records(act['nest'], sub, where + [key], acc)


def execute(plan, schedule=None, refs=None, wall_timeout=120.0):
    """Run the plan under the simulator and judge it.  Returns a result dict."""
    refs = {} if refs is None else refs
    U.purge_registry()
    gc_was = gc.isenabled()
    gc.disable()
    env = U.Env('sim')
    result = {'violations': [], 'harness': None}
    try:
        chains = static_chains(plan)
        for m in plan['universe']:
            try:
                if plan.get('setup') == 'exec':
                    mod = U.exec_module(chains[m['id']])
                else:
                    mod = U.compile_desc(m['desc'])
            except Exception as e:
                mod = None
                result.setdefault('setup_errors', []).append([m['id'], type(e).__name__, str(e)[:200]])
            env.handles[m['id']] = U.Handle(m['id'], mod, chains[m['id']], m['name'])
        policy = make_policy(plan['policy'], schedule)
        sim = mon.Sim(policy)
        env.sim = sim
        env.policy = policy
        records = [[] for _ in plan['clients']]
        for ci, ops in enumerate(plan['clients']):
            sim.spawn(lambda t, ops=ops, ci=ci: _client_body(env, t, ops, records[ci]))
        lib = plan.get('watch_library')
        if lib:
            mon.watch(mon.library_codes())
        try:
            sim.run(wall_timeout)
        finally:
            if lib:
                mon.unwatch(mon.library_codes())
        env.policy = None
        probe_records = U.run_inline(env, lambda ctx: [U.run_op(env, ctx, op) for op in plan['probes']])
        # ---- judge
        flat = []
        for ci, ops in enumerate(plan['clients']):
            for oi, (op, rec) in enumerate(zip(ops, records[ci])):
                flatten_records(op, rec, ['client', ci, oi], flat)
        for pi, (op, rec) in enumerate(zip(plan['probes'], probe_records)):
            flatten_records(op, rec, ['probe', pi], flat)
        judged = 0
        mismatches = []
        for where, op, rec in flat:
            if op['op'] == 'parse':
                if rec['out'].get('skipped'):
                    continue
                chain = chains.get(op['mod'])
                if chain is None:
                    continue
                key = (chain, U.op_key(op))
                ref = refs.get(key)
                if ref is None:
                    ref = refs[key] = U.reference_outcome(chain, U.strip_nests(op))
                judged += 1
                if rec['out'] != ref['out']:
                    mismatches.append((where, op, rec, ref, chain))
                elif rec['fired'] != ref['fired'] and not rec.get('nested'):
                    env.count('callback_sequence_differs')
            elif op['op'] == 'compile':
                parent_chain = chains.get(op['extends'], ()) if op.get('extends') is not None else ()
                key = (parent_chain, 'compile', op['desc'])
                ref = refs.get(key)
                if ref is None:
                    ref = refs[key] = U.reference_compile(parent_chain, op)
                # not a verdict: C18 speaks of parse calls and of existing modules; what a
                # construction itself returns under interleaving is recorded as a probe only
                if ('compiled' in rec['out']) != ('compiled' in ref['out']):
                    env.count('construction_outcome_differs')
        for where, op, rec, ref, chain in mismatches:
            # confirm against the definitive reference: fresh modules from the real Grammar()
            if op['op'] == 'parse':
                dref = U.reference_outcome(chain, U.strip_nests(op), definitive=True)
                if dref['out'] == rec['out']:
                    env.count('fastref_disagreement')
                    continue
                ref = dref
            result['violations'].append({
                'check': 'isolation', 'where': where, 'op': U.strip_nests(op),
                'sim': rec['out'], 'ref': ref['out']})
        result['judged'] = judged
        result['records'] = records
        result['probe_records'] = probe_records
        result['schedule'] = {'first': getattr(sim, 'first_id', None), 'switches': sim.switches}
        result['steps'] = sim.step
        result['switches'] = sum(1 for s in sim.switches if s[1] != -1)
        if result['switches']:
            env.count('preempt', result['switches'])
        result['counters'] = dict(env.counters)
        result['sig'] = rngm.digest([list(x) for x in sim.sig])
        result['log_digest'] = rngm.digest([_norm_log(sim.log), _outs(records), _outs([probe_records])])
        result['overlaps'] = len({(a, b) for a, b, *_ in ()})
    except mon.HarnessError as e:
        result['harness'] = repr(e)
    finally:
        U.purge_registry()
        env.handles.clear()
        env.last_raw.clear()
        gc.collect()
        if gc_was:
            gc.enable()
    return result


def _norm_log(log):
    from simkit.fp import norm_text
    return [[norm_text(x) if isinstance(x, str) else x for x in e] for e in log]


def _outs(records):
    return [[[r['out'], r['fired'], r['steps'], _outs([r.get('nested', [])])] for r in recs] for recs in records]


def strip_private(plan):
    """The plan as written to replay files (generator-private keys removed)."""
    def clean(op):
        out = {k: v for k, v in op.items() if not k.startswith('_')}
        if 'script' in out:
            out['script'] = {k: ({'nest': clean(v['nest'])} if isinstance(v, dict) and 'nest' in v else v)
                             for k, v in out['script'].items()}
        return out
    p = dict(plan)
    p['clients'] = [[clean(op) for op in ops] for ops in plan['clients']]
    p['probes'] = [clean(op) for op in plan['probes']]
    return p


def run_one(verif_seed, index, tier='quick'):
    seed = rngm.run_seed(verif_seed, PROP, index)
    useed = rngm.derive('universe', verif_seed, PROP, index // RUNS_PER_UNIVERSE)
    pl = Planner(seed, useed)
    plan = pl.plan(index, verif_seed)
    if plan is None:
        return {'index': index, 'empty': True}
    plan = strip_private(plan)
    res = execute(plan, refs=pl.refs)
    res['index'] = index
    res['plan'] = plan
    return res


# ------------------------------------------------------------------------------- runner interface

ASSUMPTIONS = [
    'pre-emption happens at line boundaries of Python code of the system under test; C-level '
    'operations (dict/list methods, re.match) are atomic under the GIL of CPython 3.12',
    'the reference ("the same operation executed alone") runs the same sourcer code, so a change that '
    'alters what sourcer computes but keeps calls independent is not reported here',
    'a name is never re-bound while another client\'s Grammar() call extends that same name',
    'sampling, not proof: a clean batch is evidence',
]


def _classify(out):
    if 'ok' in out:
        return 'value'
    if 'abort' in out:
        return 'user_abort'
    if 'compiled' in out:
        return 'compiled'
    if 'err' in out:
        return out['err'] if out['err'] in ('ParseError', 'PartialParseError', 'nontermination') else 'other-exception'
    return 'other'


def summarise(r):
    if r.get('empty'):
        return {'index': r['index'], 'empty': True}
    if r.get('harness'):
        return {'index': r['index'], 'harness': r['harness']}
    plan = r['plan']
    n_ops = 0
    per_mod = {}
    classes = {}
    acc = []
    for ci, ops in enumerate(plan['clients']):
        for oi, (op, rec) in enumerate(zip(ops, r['records'][ci])):
            flatten_records(op, rec, [ci, oi], acc)
    for where, op, rec in acc:
        n_ops += 1
        if op['op'] == 'parse':
            per_mod[op['mod']] = per_mod.get(op['mod'], 0) + 1
        c = _classify(rec['out'])
        classes[c] = classes.get(c, 0) + 1
    counters = r['counters']
    faults = sum(counters.get(k, 0) for k in ('preempt', 'user_abort', 'reenter', 'scramble', 'gc',
                                                'name_reuse', 'ctor_fail'))
    nontrivial = faults > 0 and any(v >= 2 for v in per_mod.values())
    ops_key = sorted(U.op_key(op) if op['op'] == 'parse' else json.dumps(op, sort_keys=True)
                     for ops in plan['clients'] for op in ops)
    dk = rngm.digest([[m['desc'] for m in plan['universe']], ops_key, r['sig']])
    s = {
        'index': r['index'], 'counters': counters, 'steps': r['steps'], 'switches': r['switches'],
        'judged': r['judged'], 'policy': plan['policy']['kind'], 'baseline': plan.get('baseline', False),
        'sig': r['sig'], 'log_digest': r['log_digest'], 'nontrivial': nontrivial, 'distinct': dk,
        'n_ops': n_ops, 'classes': classes, 'n_clients': len(plan['clients']),
        'n_modules': len(plan['universe']), 'setup': plan.get('setup'),
        'chain_len': max([len(static_chains(plan)[m['id']]) for m in plan['universe']] or [0]),
    }
    if r['violations']:
        s['violations'] = [{'index': r['index'], 'violation': r['violations'][0], 'plan': plan,
                            'schedule': r['schedule']}]
    if r['index'] % 97 == 0:
        s['sample'] = {'index': r['index'], 'policy': plan['policy'], 'kinds': plan['kinds'],
                       'universe': [m['desc'] for m in plan['universe']][:2],
                       'clients': [[_brief(op) for op in ops] for ops in plan['clients']],
                       'switches_taken': r['switches'], 'faults_fired': counters}
    return s


def _brief(op):
    if op['op'] == 'parse':
        b = {'parse': op['mod'], 'entry': op['entry'], 'text': op['text'][:40], 'pos': op['pos'], 'full': op['full']}
        if op.get('script'):
            b['script'] = {k: ('nest' if isinstance(v, dict) else v) for k, v in op['script'].items()}
        return b
    if op['op'] == 'compile':
        return {'compile': op['mod'], 'name': op.get('name'), 'extends': op.get('extends'), 'fails': op.get('fails', False)}
    return op


def new_aggregate():
    return {'counters': {}, 'steps': 0, 'switches': 0, 'judged': 0, 'policies': {}, 'classes': {},
            'distinct': set(), 'distinct_nontrivial': set(), 'sigs': set(), 'digests': {}, 'samples': [],
            'baseline_runs': 0, 'baseline_judged': 0, 'ops': 0, 'empty': 0, 'setup': {}, 'chain_len': {},
            'clients': {}}


def aggregate(agg, s):
    if s.get('empty'):
        agg['empty'] += 1
        return
    if s.get('harness'):
        agg['harness'].append('run %s: %s' % (s['index'], s['harness']))
        return
    agg['runs'] += 1
    for k, v in s['counters'].items():
        agg['counters'][k] = agg['counters'].get(k, 0) + v
    for k, v in s['classes'].items():
        agg['classes'][k] = agg['classes'].get(k, 0) + v
    agg['steps'] += s['steps']
    agg['switches'] += s['switches']
    agg['judged'] += s['judged']
    agg['ops'] += s['n_ops']
    agg['policies'][s['policy']] = agg['policies'].get(s['policy'], 0) + 1
    agg['setup'][str(s['setup'])] = agg['setup'].get(str(s['setup']), 0) + 1
    agg['chain_len'][str(s['chain_len'])] = agg['chain_len'].get(str(s['chain_len']), 0) + 1
    agg['clients'][str(s['n_clients'])] = agg['clients'].get(str(s['n_clients']), 0) + 1
    agg['distinct'].add(s['distinct'])
    agg['sigs'].add(s['sig'])
    if s['nontrivial']:
        agg['distinct_nontrivial'].add(s['distinct'])
    if s['baseline']:
        agg['baseline_runs'] += 1
        agg['baseline_judged'] += s['judged']
    if len(agg['digests']) < 400:
        agg['digests'][s['index']] = s['log_digest']
    if 'sample' in s and len(agg['samples']) < 4:
        agg['samples'].append(s['sample'])
    for v in s.get('violations', []):
        agg['violations'].append(v)


def finding_key(v):
    viol = v['violation']
    return '%s:%s' % (viol.get('check'), viol.get('op', {}).get('op'))


def coverage(agg):
    samples = agg['samples'] or [{'note': 'no sampled run in this batch'}]
    return {
        'evaluations': agg['runs'],
        'distinct_nontrivial': len(agg['distinct_nontrivial']),
        'rule': 'one evaluation = one simulated run (universe of 1-4 real generated modules, 1-4 scripted '
                'clients, one seeded schedule); non-trivial = at least one fault kind fired AND at least two '
                'parse operations touched one module with colliding texts; distinct by (descriptions, '
                'operation multiset, schedule signature = hash of (task, op, code name, line) at every switch)',
        'samples': samples,
        'distinct_runs': len(agg['distinct']),
        'distinct_schedule_signatures': len(agg['sigs']),
        'simulated_steps_total': agg['steps'],
        'simulated_time_note': 'the only clock is the step counter (one step = one line event of the system under test)',
        'operations_executed': agg['ops'],
        'operations_judged_against_isolated_reference': agg['judged'],
        'faults_fired_by_kind': {k: agg['counters'].get(k, 0) for k in
                                 ('preempt', 'user_abort', 'reenter', 'scramble', 'gc', 'name_reuse', 'ctor_fail')},
        'probes': {k: v for k, v in agg['counters'].items()
                   if k not in ('preempt', 'user_abort', 'reenter', 'scramble', 'gc', 'name_reuse', 'ctor_fail')},
        'outcome_classes': agg['classes'],
        'policies': agg['policies'],
        'clients_per_run': agg['clients'],
        'longest_extension_chain_per_run': agg['chain_len'],
        'setup_mode': agg['setup'],
        'fault_free_single_client_baseline': {'runs': agg['baseline_runs'], 'judged': agg['baseline_judged']},
        'universes_that_did_not_compile': agg['empty'],
        'real_vs_stub': {
            'real': ['every generated module in full (rule bodies, _run, finalisation, error construction)',
                     'sourcer.Grammar / translator / expressions / shipped meta-parser (monitored while Grammar() is an operation)',
                     'outsourcer', 'CPython import system and sys.modules', 'OS threads'],
            'stub': ['users: client threads and inline-Python callbacks are scripted',
                     'thread scheduler: a baton decides who runs, not the GIL'],
        },
    }


def minimise(doc, budget_s=60):
    import copy
    import time
    from simkit.shrink import ddmin
    deadline = time.time() + budget_s
    want = doc['key']
    state = {'plan': copy.deepcopy(doc['plan']), 'schedule': copy.deepcopy(doc['schedule']) or {'first': 0, 'switches': []}}
    last = {}

    def fails(plan, schedule):
        res = execute(plan, schedule)
        if res.get('harness'):
            return False
        for v in res['violations']:
            if finding_key({'violation': v}) == want:
                last['v'] = v
                return True
        return False

    if not (fails(state['plan'], state['schedule']) or fails(state['plan'], state['schedule'])):
        doc['minimise_note'] = 'recorded schedule did not reproduce inside the minimiser'
        return doc
    doc['confirmed_in_process'] = True

    def try_plan(p, s=None):
        s = state['schedule'] if s is None else s
        if fails(p, s):
            state['plan'], state['schedule'] = p, s
            return True
        return False

    progress = True
    while progress and time.time() < deadline:
        progress = False
        # 1. switches
        sw = state['schedule']['switches']
        if sw:
            new = ddmin(sw, lambda c: fails(state['plan'], dict(state['schedule'], switches=c)), deadline)
            if len(new) < len(sw):
                state['schedule'] = dict(state['schedule'], switches=new)
                progress = True
        # 2. probes
        pr = state['plan']['probes']
        if pr:
            new = ddmin(pr, lambda c: fails(dict(state['plan'], probes=c), state['schedule']), deadline)
            if len(new) < len(pr):
                state['plan'] = dict(state['plan'], probes=new)
                progress = True
        # 3. whole clients, then operations
        for ci in range(len(state['plan']['clients'])):
            ops = state['plan']['clients'][ci]
            if not ops:
                continue

            def with_ops(c, ci=ci):
                cl = list(state['plan']['clients'])
                cl[ci] = c
                return dict(state['plan'], clients=cl)
            new = ddmin(ops, lambda c: fails(with_ops(c), state['schedule']), deadline)
            if len(new) < len(ops):
                state['plan'] = with_ops(new)
                progress = True
        # 4. script entries
        for ci, ops in enumerate(state['plan']['clients']):
            for oi, op in enumerate(ops):
                for key in sorted((op.get('script') or {})):
                    if time.time() >= deadline:
                        break
                    p = copy.deepcopy(state['plan'])
                    del p['clients'][ci][oi]['script'][key]
                    if try_plan(p):
                        progress = True
        # 5. texts
        for ci, ops in enumerate(state['plan']['clients']):
            for oi, op in enumerate(ops):
                if op['op'] != 'parse' or len(op['text']) < 2 or time.time() >= deadline:
                    continue
                for cut in (len(op['text']) // 2, len(op['text']) - 1):
                    p = copy.deepcopy(state['plan'])
                    p['clients'][ci][oi]['text'] = op['text'][:cut]
                    p['clients'][ci][oi].pop('script', None) if False else None
                    if try_plan(p):
                        progress = True
                        break
    fails(state['plan'], state['schedule'])
    doc = dict(doc, plan=state['plan'], schedule=state['schedule'], minimised=True)
    if 'v' in last:
        doc['violation'] = last['v']
    return doc

"""Engine `lineage` -- C13: inheritance -- late-bound overrides, super, parent untouched (DESIGN 4.2).

A sequential history machine over the real registry (sys.modules): define (root, child,
grandchild), parse through any live module, name_reuse (re-define a name that has live
children), ctor_fail, forget, probes.  Reference model: the chain flattened into one plain
grammar (simkit/flatten.py), compiled by sourcer itself as a single unnamed module.

Invariants over the history:
  (o)   every rule of every ancestor is available in the child;
  (i)   every parse agrees with the flattened model;
  (ii)  every live module answers a fixed probe set exactly as right after its creation;
  (iii) a failed define leaves the registry unchanged.
"""
import gc
import json
import sys

from simkit import flatten as F, fp as fpm, locks, mon, rng as rngm, spec, universe as U
from engines import common as C

PROP = 'C13'
RUNS_PER_UNIVERSE = 6
_MODEL_CACHE = {}
_MODEL_CACHE_MAX = 48


# ------------------------------------------------------------------------------- generation

def gen_lineage(r):
    """A chain of up to three levels plus a replacement root for name re-use."""
    dotted = r.random() < 0.15
    def nm(i):
        return (U.PREFIX + 'pk.l%d' % i) if dotted else (U.PREFIX + 'l%d' % i)
    ig0 = r.choice(['none', 'none', 'anon', 'named', 'named'])
    matrix = r.random() < 0.30
    nullable_x = matrix and r.random() < 0.4
    if matrix:
        # one rule referred to from every kind of expression; the derived grammars override it
        # (nullable_x: the base definition cannot fail, the overrides can -- static facts about the base
        # definition must not be baked into the inherited rules that refer to it)
        s0, g0 = spec.kind_matrix_root(r, ignore=None if ig0 == 'none' else ig0, nullable_x=nullable_x)
    else:
        s0, g0 = spec.gen_root(r, True, hook_p=0.0, ignore=ig0, class_start=False, max_rep_lo=1,
                               start_spelling=r.choice(['start'] * 8 + ['Start', 'START']), helpers_p=0.3)
    infos = [C.ModInfo(0, nm(0), None, s0, g0)]
    n_levels = r.choice([2, 2, 3, 3, 3])
    prev = infos[0]
    for i in range(1, n_levels):
        ig = r.choice([None, None, None, 'anon', 'named'])
        force = ('X',) if (matrix and (i == 1 or r.random() < 0.5)) else ()
        if i >= 2 and r.random() < 0.6:
            # override what the parent reaches through `super` without defining it itself
            sup = {n for it in prev.spec['items'] for k, n in spec.refs_in_item(it) if k == 'super'}
            own = {it['name'] for it in prev.spec['items'] if it['k'] in ('rule', 'class')}
            force = tuple(force) + tuple(sorted(sup - own))
        fb = None
        if nullable_x and 'X' in force:
            # first override: a definition that can fail; later ones: either kind
            fb = {'X': r.choice(spec.FAILING_X_OVERRIDES if (i == 1 or r.random() < 0.5) else spec.NULLABLE_X_BASES)}
        fi = ()
        if matrix and r.random() < 0.5:
            # the derived grammar overrides the two-parameter rule, possibly listing the parameters in another order
            fi = (r.choice(spec.CN_OVERRIDES),)
        s, g = spec.gen_child(r, prev.gen, hook_p=0.0, ignore=ig, force=force, override_ignore_p=0.25,
                              respell_start_p=0.3, force_body=fb, force_items=fi, helpers_p=0.2, echo_lit_call_p=0.5)
        m = C.ModInfo(i, nm(i), prev.id, s, g, parent=prev)
        infos.append(m)
        prev = m
    # a replacement for the root's name (name re-use), different rules
    s9, g9 = spec.gen_root(r, True, n_rules=r.randint(2, 4), hook_p=0.0, class_start=False, max_rep_lo=1)
    alt = C.ModInfo(9, nm(0), None, s9, g9)
    # siblings: a second (third) derived grammar of a module that already has one -- what one child
    # overrides, adds or declares as ignorable must not reach its parent, its siblings or their children
    sibs = []
    r2 = rngm.stream(r.getrandbits(48), 'siblings')
    if r2.random() < 0.45:
        for k in range(min(2, len(infos))):
            if r2.random() < (0.8 if k == 0 else 0.5):
                par = infos[k]
                force = ('X',) if matrix and r2.random() < 0.5 else ()
                fb = {'X': r2.choice(spec.FAILING_X_OVERRIDES)} if (nullable_x and force) else None
                s, g = spec.gen_child(r2, par.gen, hook_p=0.0, ignore=r2.choice([None, None, 'anon', 'named']), force=force,
                                      override_ignore_p=0.25, respell_start_p=0.2, force_body=fb, helpers_p=0.2, echo_lit_call_p=0.5)
                sibs.append(C.ModInfo(5 + k, nm(5 + k), par.id, s, g, parent=par))
    return infos, alt, dotted, sibs


def _acceptor(m):
    """Does the flattened model accept the text completely?  (Workload shaping only.)"""
    levels = [{'items': a.spec['items']} for a in _levels(m)]

    def accept(text):
        mm = model_module(levels, len(levels) - 1, 'late')
        if isinstance(mm, tuple):
            return False
        env = U.Env('ref', allow_nest=False)
        out = U.run_inline(env, lambda ctx: _call(mm, 'parse', text, True, ctx, budget=30_000))
        return 'ok' in out
    return accept


def _levels(m):
    out = []
    while m is not None:
        out.append(m)
        m = m.parent
    return list(reversed(out))


def module_entry(m):
    lv = _levels(m)
    own = [it['name'] for it in m.spec['items'] if it['k'] in ('rule', 'class') and not it.get('ignore') and not it.get('params')]
    own_kinds = {it['name']: it['k'] for it in m.spec['items'] if it['k'] in ('rule', 'class')}
    anc_names = sorted({it['name'] for a in lv[:-1] for it in a.spec['items']
                        if it['k'] in ('rule', 'class')})
    return {'id': m.id, 'name': m.name, 'extends': m.extends, 'desc': m.desc,
            'levels': [{'items': a.spec['items']} for a in lv],
            'own': [[n, own_kinds[n]] for n in own], 'ancestor_rules': anc_names}


def gen_plan(seed, useed, index, verif_seed, scale=1):
    ur = rngm.stream(useed, 'universe')
    tr = rngm.stream(useed, 'texts')
    wr = rngm.stream(seed, 'workload')
    fr = rngm.stream(seed, 'faults')
    ur2 = rngm.stream(seed, 'variant')
    tr2 = rngm.stream(seed, 'variant-texts')
    infos, alt, dotted, sibs = gen_lineage(ur)
    for m in infos + [alt]:
        m.texts = C.make_texts(tr, m, n=3, accept=_acceptor(m))
    tr3 = rngm.stream(useed, 'sibling-texts')
    for m in sibs:
        m.texts = C.make_texts(tr3, m, n=3, accept=_acceptor(m))
    mods = {m.id: module_entry(m) for m in infos + [alt] + sibs}
    texts = {m.id: m.texts for m in infos + [alt] + sibs}
    byid = {m.id: m for m in infos + [alt] + sibs}
    pending_sibs = list(sibs)
    sr = rngm.stream(seed, 'siblings')

    def maybe_siblings(level, force=False):
        """Define siblings whose parent is live (levels 0..level), each at a point of the history chosen per run."""
        for sb in list(pending_sibs):
            if sb.extends <= level and (force or sr.random() < 0.5):
                pending_sibs.remove(sb)
                ops.append({'op': 'define', 'mod': sb.id, 'sibling': True})
                live.append(sb.id)
                parses(sr.choice([0, 1, 2]))
    ops = []
    live = []

    def parses(k):
        for _ in range(k * scale):
            if not live:
                return
            if len(live) >= 2 and ops and ops[-1]['op'] == 'parse' and wr.random() < 0.25:
                # the same text again, back to back, through a relative of the module just used
                last = ops[-1]
                other = wr.choice([x for x in live if x != last['mod']])
                ops.append({'op': 'parse', 'mod': other, 'entry': 'parse', 'text': last['text'], 'full': last['full']})
                continue
            mid = wr.choice(live)
            me = mods[mid]
            entry = 'parse'
            # a text of this module or of a relative (what the parent accepts, the child may not)
            src = mid if wr.random() < 0.7 else wr.choice(live)
            t = wr.choice(texts[src])
            if me['own'] and wr.random() < 0.3:
                n, kind = wr.choice(me['own'])
                entry = '%s:%s' % (kind, n)
                if wr.random() < 0.7:
                    # a derivation from that very rule, with ignorable gaps of the chain
                    mi = byid[mid]
                    t = C.entry_text(wr, mi, mi.rules[n])
            ops.append({'op': 'parse', 'mod': mid, 'entry': entry, 'text': t, 'full': wr.random() < 0.8})

    baseline = fr.random() < 0.1
    kinds = [] if baseline else [k for k in ('name_reuse', 'ctor_fail', 'forget', 'recreate') if fr.random() < 0.6]
    if 'recreate' in kinds and 'name_reuse' in kinds:
        kinds.remove(fr.choice(['recreate', 'name_reuse']))
    reuse_at = wr.randrange(1, len(infos) + 1) if 'name_reuse' in kinds else None
    stopped = False
    for i, m in enumerate(infos):
        ops.append({'op': 'define', 'mod': m.id})
        live.append(m.id)
        if 'ctor_fail' in kinds and fr.random() < 0.4:
            # a construction that fails half-way: extends the newest module, raises at exec
            bad = 'grammar %sbad%d extends %s\n\nQ = "q"\n```\nraise RuntimeError("ctor_fail")\n```\n' % (U.PREFIX, i, m.name)
            ops.append({'op': 'define_fail', 'desc': bad})
        parses(wr.choice([0, 1, 2, 3]))
        maybe_siblings(i)
        if reuse_at == i + 1:
            ops.append({'op': 'define', 'mod': alt.id, 'reuse': True})
            live.append(alt.id)
            parses(wr.choice([1, 2, 3]))
            # the name now belongs to the replacement: deeper levels are not created any more
            # (Grammar() re-reads every ancestor by name) -- see DESIGN 4.1/4.2
            stopped = True
            break
        if 'forget' in kinds and i >= 1 and fr.random() < 0.35:
            # drop an ancestor (or the newest module) from the registry while its relatives live
            victim = wr.choice([mm.id for mm in _levels(m)])
            ops.append({'op': 'forget', 'mod': victim})
            parses(wr.choice([1, 2, 3]))
            # a chain with a forgotten member can no longer be extended by name
            stopped = True
            break
    if not stopped:
        maybe_siblings(len(infos), force=True)
    if 'recreate' in kinds and not stopped and len(infos) >= 2:
        # "edit the base, re-run everything": a module that is already extended is re-created under
        # its name with edited rules, then every deeper level is re-created from its unchanged text
        t = wr.randrange(0, len(infos) - 1)
        old = infos[t]
        vs, vg = spec.gen_variant(ur2, old.spec, old.gen, parent_gen=old.parent.gen if old.parent else None)
        v = C.ModInfo(10, old.name, old.extends, vs, vg, parent=old.parent)
        v.texts = C.make_texts(tr2, v, n=2, accept=_acceptor(v))
        mods[v.id] = module_entry(v)
        texts[v.id] = v.texts
        byid[v.id] = v
        ops.append({'op': 'define', 'mod': v.id, 'reuse': True, 'recreate': True})
        live.append(v.id)
        parses(wr.choice([0, 1, 2]))
        prev = v
        for k in range(t + 1, len(infos)):
            o = infos[k]
            n = C.ModInfo(10 + k, o.name, prev.id, o.spec, o.gen, parent=prev)
            assert n.desc == o.desc
            n.texts = C.make_texts(tr2, n, n=2, accept=_acceptor(n))
            mods[n.id] = module_entry(n)
            texts[n.id] = n.texts
            byid[n.id] = n
            ops.append({'op': 'define', 'mod': n.id, 'reuse': True, 'recreate': True})
            live.append(n.id)
            parses(wr.choice([1, 2, 3]))
            prev = n
    parses(wr.choice([1, 2, 3, 4]))
    ops.append({'op': 'probe_all'})
    return {'prop': PROP, 'verif_seed': verif_seed, 'index': index, 'run_seed': seed,
            'modules': {str(k): v for k, v in mods.items()},
            'probe_texts': {str(k): v[:3] for k, v in texts.items()},
            'ops': ops, 'kinds': kinds, 'baseline': baseline, 'dotted': dotted}


# ------------------------------------------------------------------------------- the model

def model_module(levels, i, reading):
    fs = F.flatten(levels, i, reading)
    desc = spec.render_module(fs)
    hit = _MODEL_CACHE.get(desc)
    if hit is None:
        try:
            from sourcer import Grammar
            hit = Grammar(desc)
            U.arm(hit)          # the user-code seam (envprobe() etc.) exists in the model as well
            mon.watch(U.generated_codes(hit))
        except Exception as e:
            hit = ('fail', type(e).__name__, str(e)[:200])
        if len(_MODEL_CACHE) >= _MODEL_CACHE_MAX:
            _MODEL_CACHE.pop(next(iter(_MODEL_CACHE)))
        _MODEL_CACHE[desc] = hit
    return hit


def _call(module, entry, text, full, ctx, budget=U.REF_BUDGET):
    t = ctx.task
    saved = t.deadline
    t.deadline = t.local + budget
    try:
        try:
            fn = U.entry_fn(module, entry)
        except Exception as e:
            return {'err': 'entry:' + type(e).__name__}
        try:
            with locks.sut():
                v = fn(U.fresh_text(text), 0, full)
            return fpm.outcome_fp('value', v, aliasing=False, messages=False)
        except mon.StepBudget:
            return {'err': 'nontermination'}
        except locks.Deadlock:
            return {'err': 'deadlock'}
        except MemoryError:
            return {'err': 'MemoryError'}
        except RecursionError:
            return {'err': 'RecursionError'}
        except Exception as e:
            out = fpm.outcome_fp('exc', e, aliasing=False, messages=False)
            if out['err'] not in ('ParseError', 'PartialParseError'):
                out = {'err': out['err'], 'msg': out.get('msg', '')[:160]}
            return out
    finally:
        t.deadline = saved


def model_outcomes(me, entry, text, full, ctx):
    """Outcomes under the tenable readings; the implementation is compared only when they agree."""
    levels = me['levels']
    i = len(levels) - 1
    readings = ['late', 'early'] if F.readings_differ(levels, i) else ['late']
    outs = []
    for rd in readings:
        mm = model_module(levels, i, rd)
        if isinstance(mm, tuple):
            return None
        o = _call(mm, F.entry_name(levels, i, entry), text, full, ctx)
        outs.append(F.norm_names(o))
    if any(o != outs[0] for o in outs[1:]):
        # the two tenable readings differ on this parse: the implementation must at least agree with ONE of them
        return ('either', outs)
    return outs[0]


# ------------------------------------------------------------------------------- execution

def shape_of(me):
    """Coarse shape tags of the chain a module was built from (keys of known findings)."""
    levels = me['levels']
    tags = []
    ig = [[it for it in lv['items'] if it['k'] == 'ignore' or it.get('ignore')] for lv in levels]
    if len(levels) > 1 and any(it['k'] == 'ignore' for lvl in ig[:-1] for it in lvl):
        tags.append('anonymous-ignore-in-ancestor')
    if sum(1 for x in ig if x) >= 2:
        tags.append('ignore-at-two-levels')
    if len(levels) >= 3:
        for lv in levels[1:-1]:
            if any(k == 'super' for it in lv['items'] for k, _ in spec.refs_in_item(it)):
                tags.append('super-in-middle-level')
                break
    if me['name'] and '.' in me['name'] and len(levels) > 1:
        tags.append('dotted-parent-name')
    if any(it.get('ignore_override') for lv in levels[1:] for it in lv['items']):
        tags.append('ignore-rule-overridden')
    if len(levels) > 1:
        for lv in levels:
            for it in lv['items']:
                for ex in spec.item_exprs(it):
                    for n in spec.walk(ex):
                        if n[0] == 'call' and any(a[0] == 'ref' for a in n[2:]):
                            tags.append('rule-passed-as-template-argument')
    if len(levels) >= 3:
        top = levels[-1]
        parent_names = {it['name'] for it in levels[-2]['items'] if it['k'] in ('rule', 'class')}
        own_names = {it['name'] for it in top['items'] if it['k'] in ('rule', 'class')}
        older = {it['name'] for lv in levels[:-2] for it in lv['items'] if it['k'] in ('rule', 'class')}
        for it in top['items']:
            for k, n in spec.refs_in_item(it):
                if k == 'ref' and n in older and n not in parent_names and n not in own_names:
                    tags.append('grandchild-mentions-grandparent-only-rule')
                    break
    return sorted(set(tags))


# ------------------------------------------------------------------------------- known finding D8
#
# A string literal passed as an ARGUMENT to a parameterised rule travels as a `str` subclass that carries its
# own parse function; the driver's memo compares such wrappers BY STRING VALUE.  Two wrappers for the same text
# written at two levels of a chain, one compiled with "skip ignorables after it" and one without (a grammar that
# declares `ignore` extending one that does not), are therefore one memo entry when they are asked for at the
# same position: whichever is evaluated first answers for both.  A genuine defect (DESIGN 10.13, D8), recorded in
# known_findings.json rather than repaired.  A mismatch against the model is attributed to it ONLY IF it
# disappears when every literal argument is routed through a rule of its own (`Lq = ";"`, passed by name and
# therefore compared by identity) -- any other mismatch on such a chain is reported as usual.

D8_TAG = 'equal-literal-arguments-at-levels-with-and-without-ignore'
D8_KEY = 'lineage:known:D8:' + D8_TAG


def _d8_shape(levels):
    in_force = False
    with_, without = set(), set()
    for lv in levels:
        if any(it['k'] == 'ignore' or it.get('ignore') for it in lv['items']):
            in_force = True
        for it in lv['items']:
            for ex in spec.item_exprs(it):
                for n in spec.walk(ex):
                    if n[0] == 'call':
                        for a in n[2:]:
                            if a[0] == 'lit':
                                (with_ if in_force else without).add(a[1])
    return bool(with_ & without)


def _defuse_literal_arguments(levels):
    """The same chain with every literal argument `T("v")` rewritten to `T(Lq)`, `Lq = "v"` a new rule of the same level."""
    import copy
    out = []
    for li, lv in enumerate(levels):
        items = copy.deepcopy(lv['items'])
        alias = {}

        def fix(e):
            if e[0] == 'call':
                for i in range(2, len(e)):
                    if e[i][0] == 'lit':
                        nm = alias.setdefault(e[i][1], 'Lq%d_%d' % (li, len(alias)))
                        e[i] = ['ref', nm]
            for c in spec.children(e):
                fix(c)
        for it in items:
            for ex in spec.item_exprs(it):
                fix(ex)
        for v, nm in alias.items():
            items.append({'k': 'rule', 'name': nm, 'expr': ['lit', v]})
        out.append({'items': items})
    return out


def _attributed_to_d8(me, op, want, ctx):
    levels = me['levels']
    if not _d8_shape(levels):
        return False
    mods = []
    try:
        for i, lv in enumerate(_defuse_literal_arguments(levels)):
            name = '%sk%d' % (U.PREFIX, i)
            desc = spec.render_module({'named': True, 'extends': i > 0, 'items': lv['items']}, name,
                                      '%sk%d' % (U.PREFIX, i - 1) if i else None)
            mods.append(U.compile_desc(desc))
        got = F.norm_names(_call(mods[-1], op['entry'], op['text'], op['full'], ctx))
    except Exception:
        return False
    finally:
        for i in range(len(levels)):
            sys.modules.pop('%sk%d' % (U.PREFIX, i), None)
    return got == want


def execute(plan, schedule=None, refs=None):
    U.purge_registry()
    gc_was = gc.isenabled()
    gc.disable()
    env = U.Env('sim', allow_nest=False)
    result = {'violations': [], 'harness': None}
    mods = plan['modules']
    live = {}            # mod id (str) -> module
    owner = {}           # registry name -> mod id that the history last defined under it (and did not forget)
    baseline = {}        # mod id -> [outcome of each probe text right after creation]
    log = []
    viol = result['violations']

    def probe(mid, ctx):
        m = live[mid]
        return [F.norm_names(_call(m, 'parse', t, True, ctx)) for t in plan['probe_texts'][mid]]

    def check_stability(opi, ctx):
        for mid in sorted(live):
            now = probe(mid, ctx)
            env.count('stability_probes', len(now))
            if now != baseline[mid]:
                k = next(i for i, (a, b) in enumerate(zip(now, baseline[mid])) if a != b)
                viol.append({'check': 'stability', 'op_index': opi, 'op': plan['ops'][opi], 'mod': mid,
                             'shape': shape_of(mods[mid]), 'text': plan['probe_texts'][mid][k],
                             'at_creation': baseline[mid][k], 'now': now[k]})
                baseline[mid] = now      # report a drift once

    def body(ctx):
        for opi, op in enumerate(plan['ops']):
            kind = op['op']
            if kind == 'define':
                me = mods[str(op['mod'])]
                par = me['extends']
                if par is not None and owner.get(mods[str(par)]['name']) != str(par):
                    # (a shrunk history may have lost the parent's definition: nothing to judge)
                    log.append(['define', op['mod'], 'skipped-no-parent'])
                    continue
                before = U.registry_snapshot()
                try:
                    m = U.compile_desc(me['desc'])
                except Exception as e:
                    m = None
                    err = {'err': type(e).__name__, 'msg': fpm.norm_text(str(e))[:160]}
                    log.append(['define', op['mod'], err])
                    env.count('define_failed')
                    # the model says this chain is fine (it compiled as a flat grammar) -- unless it did not
                    mm = model_module(me['levels'], len(me['levels']) - 1, 'late')
                    if not isinstance(mm, tuple):
                        viol.append({'check': 'model', 'sub': 'define', 'op_index': opi, 'op': op, 'mod': str(op['mod']),
                                     'shape': shape_of(me), 'impl': err, 'model': 'chain compiles as a flat grammar'})
                    if U.registry_snapshot() != before:
                        viol.append({'check': 'registry', 'op_index': opi, 'op': op, 'shape': shape_of(me)})
                    continue
                env.count('define')
                if op.get('sibling'):
                    env.count('sibling_defined')
                if op.get('recreate'):
                    env.count('recreate')
                elif op.get('reuse'):
                    env.count('name_reuse')
                live[str(op['mod'])] = m
                owner[me['name']] = str(op['mod'])
                log.append(['define', op['mod'], 'ok'])
                # (o) every rule of every ancestor is available in the child
                missing = [n for n in me['ancestor_rules'] if not hasattr(m, n)]
                env.count('availability_checked', len(me['ancestor_rules']))
                if missing:
                    viol.append({'check': 'availability', 'op_index': opi, 'op': op, 'mod': str(op['mod']),
                                 'shape': shape_of(me), 'missing': missing[:5]})
                baseline[str(op['mod'])] = probe(str(op['mod']), ctx)
            elif kind == 'define_fail':
                before = U.registry_snapshot()
                try:
                    U.compile_desc(op['desc'])
                    log.append(['define_fail', 'unexpectedly-ok'])
                except Exception as e:
                    env.count('ctor_fail')
                    log.append(['define_fail', type(e).__name__])
                if U.registry_snapshot() != before:
                    viol.append({'check': 'registry', 'op_index': opi, 'op': op, 'shape': []})
            elif kind == 'forget':
                mid = str(op['mod'])
                nm = mods[mid]['name']
                if mid in live and sys.modules.get(nm) is live[mid]:
                    del sys.modules[nm]
                    env.count('forget')
                if owner.get(nm) == mid:
                    del owner[nm]
                log.append(['forget', op['mod']])
            elif kind == 'parse':
                mid = str(op['mod'])
                if mid not in live:
                    log.append(['parse', 'skipped'])
                    continue
                me = mods[mid]
                got = F.norm_names(_call(live[mid], op['entry'], op['text'], op['full'], ctx))
                want = model_outcomes(me, op['entry'], op['text'], op['full'], ctx)
                env.count('parses')
                log.append(['parse', mid, op['entry'], got])
                if want is None:
                    env.count('model_unavailable')
                elif isinstance(want, tuple) and want[0] == 'either':
                    env.count('ambiguous_readings_skipped')
                    if got not in want[1]:
                        env.count('judged_against_either_reading')
                        viol.append({'check': 'model', 'sub': 'parse-under-either-reading', 'op_index': opi, 'op': op, 'mod': mid,
                                     'shape': shape_of(me), 'impl': got, 'model_late': want[1][0], 'model_early': want[1][-1]})
                else:
                    env.count('parses_judged')
                    if int(mid) in (5, 6):
                        env.count('judged_through_sibling')
                    _count_probes(env, me, got)
                    if got != want:
                        v = {'check': 'model', 'sub': 'parse', 'op_index': opi, 'op': op, 'mod': mid,
                             'shape': shape_of(me), 'impl': got, 'model': want}
                        if _attributed_to_d8(me, op, want, ctx):
                            v['known'] = D8_KEY
                            v['shape'] = [D8_TAG]
                            env.count('mismatch_attributed_to_known_finding_D8')
                        viol.append(v)
            elif kind == 'probe_all':
                pass
            if kind != 'parse':
                check_stability(opi, ctx)
        check_stability(len(plan['ops']) - 1, ctx)

    try:
        U.run_inline(env, body)
    except mon.HarnessError as e:
        result['harness'] = repr(e)
    finally:
        U.purge_registry()
        live.clear()
        gc.collect()
        if gc_was:
            gc.enable()
    # one violation per (check, shape) is enough for a run
    seen, uniq = set(), []
    for v in viol:
        k = (v['check'], tuple(v.get('shape', [])))
        if k not in seen:
            seen.add(k)
            uniq.append(v)
    result['violations'] = uniq
    result['counters'] = dict(env.counters)
    result['judged'] = env.counters.get('parses_judged', 0)
    result['log_digest'] = rngm.digest(log)
    result['steps'] = 0
    result['schedule'] = None
    return result


def _count_probes(env, me, got):
    levels = me['levels']
    if len(levels) < 2:
        return
    env.count('judged_through_derived_module')
    if len(levels) >= 3:
        env.count('judged_through_grandchild')
    top_names = set()
    for lv in levels[1:]:
        for it in lv['items']:
            if it['k'] in ('rule', 'class'):
                top_names.add(it['name'])
    base_refs = {n for it in levels[0]['items'] for k, n in spec.refs_in_item(it)}
    if top_names & base_refs:
        env.count('inherited_rule_reaches_overridden_rule')
    if any(k == 'super' for lv in levels[1:] for it in lv['items'] for k, _ in spec.refs_in_item(it)):
        env.count('chain_has_super_reference')
    if any(it['k'] == 'ignore' or it.get('ignore') for lv in levels[:-1] for it in lv['items']):
        env.count('inherited_ignore_pattern')
    if 'ok' in got:
        env.count('judged_successful_parse')


def prepare(verif_seed, index):
    """Warm the universe-level caches (flattened models) in the group process."""
    useed = rngm.derive('universe', verif_seed, PROP, index // RUNS_PER_UNIVERSE)
    infos, alt, dotted, sibs = gen_lineage(rngm.stream(useed, 'universe'))
    for m in infos + [alt] + sibs:
        levels = [{'items': a.spec['items']} for a in _levels(m)]
        for rd in (['late', 'early'] if F.readings_differ(levels, len(levels) - 1) else ['late']):
            model_module(levels, len(levels) - 1, rd)


def run_one(verif_seed, index, tier='quick'):
    seed = rngm.run_seed(verif_seed, PROP, index)
    useed = rngm.derive('universe', verif_seed, PROP, index // RUNS_PER_UNIVERSE)
    plan = gen_plan(seed, useed, index, verif_seed, scale=C.scale_of(tier, index, RUNS_PER_UNIVERSE))
    res = execute(plan)
    res['index'] = index
    res['plan'] = plan
    return res


def finding_key(v):
    viol = v['violation']
    if viol.get('known'):
        return viol['known']
    return 'lineage:%s%s:%s' % (viol.get('check'), '/' + viol['sub'] if viol.get('sub') else '',
                               '+'.join(viol.get('shape', [])) or 'plain')


def minimise(doc, budget_s=60):
    import copy
    import time
    from simkit.shrink import ddmin
    deadline = time.time() + budget_s
    want = doc['key']
    last = {}

    def fails(plan):
        from simkit import runner

        def run():
            res = execute(plan)
            if res.get('harness'):
                return None
            return [(finding_key({'violation': v}), v) for v in res['violations']]
        try:
            out = runner.fork_call(run, timeout=300)
        except runner.ForkError:
            return False
        for k, v in out or []:
            if k == want:
                last['v'] = v
                return True
        return False

    plan = copy.deepcopy(doc['plan'])
    if not fails(plan):
        doc['minimise_note'] = 'did not reproduce inside the minimiser'
        return doc
    doc['confirmed_in_process'] = True
    ops = ddmin(plan['ops'], lambda c: fails(dict(plan, ops=c)), deadline)
    plan['ops'] = ops
    # shorten texts
    for i, op in enumerate(plan['ops']):
        if op['op'] == 'parse' and len(op['text']) > 1 and time.time() < deadline:
            for cut in (len(op['text']) // 2, len(op['text']) - 1):
                p = copy.deepcopy(plan)
                p['ops'][i]['text'] = op['text'][:cut]
                if fails(p):
                    plan = p
                    break
    fails(plan)
    doc = dict(doc, plan=plan, minimised=True)
    if 'v' in last:
        doc['violation'] = last['v']
    return doc


# ------------------------------------------------------------------------------- runner interface

ASSUMPTIONS = [
    'trusted base of the model: sourcer compiles a flat, unnamed grammar of references, choices, sequences, '
    'literals, Skip and classes correctly -- exactly the part C13 is not about; a change to that part moves both sides',
    'where the two tenable readings of "A\'s ignore patterns combined with ignore patterns of B" give different '
    'answers the implementation is not judged on that parse',
    'entry points through a derived module are its parse() and the rules/classes it defines or overrides itself',
    'errors are compared on (class, position triple, partial result), not on message text',
    'a module whose ancestor\'s name was re-bound or forgotten is still parsed with but no longer extended',
    'sampling, not proof: a clean batch is evidence',
]


def summarise(r):
    if r.get('harness'):
        return {'index': r['index'], 'harness': r['harness']}
    plan = r['plan']
    c = r['counters']
    nontrivial = (c.get('inherited_rule_reaches_overridden_rule', 0) + c.get('chain_has_super_reference', 0)
                  + c.get('inherited_ignore_pattern', 0)) > 0 and c.get('judged_through_derived_module', 0) > 0
    chain = [plan['modules'][k]['desc'] for k in sorted(plan['modules'])]
    dk = rngm.digest([chain, plan['ops']])
    s = {'index': r['index'], 'counters': c, 'judged': r['judged'], 'log_digest': r['log_digest'],
         'nontrivial': nontrivial, 'distinct': dk, 'baseline': plan.get('baseline', False),
         'n_ops': len(plan['ops']), 'levels': max(len(m['levels']) for m in plan['modules'].values()),
         'dotted': plan.get('dotted', False), 'kinds': plan['kinds']}
    if r['violations']:
        s['violations'] = [{'index': r['index'], 'violation': v, 'plan': plan, 'schedule': None}
                           for v in r['violations'][:4]]
    if r['index'] % 97 == 0:
        s['sample'] = {'index': r['index'], 'chain': chain[:3], 'ops': plan['ops'][:12], 'counters': c}
    return s


def new_aggregate():
    return {'counters': {}, 'judged': 0, 'distinct': set(), 'distinct_nontrivial': set(), 'digests': {},
            'samples': [], 'baseline_runs': 0, 'ops': 0, 'levels': {}, 'dotted': 0, 'kinds': {}}


def aggregate(agg, s):
    if s.get('harness'):
        agg['harness'].append('run %s: %s' % (s['index'], s['harness']))
        return
    agg['runs'] += 1
    for k, v in s['counters'].items():
        agg['counters'][k] = agg['counters'].get(k, 0) + v
    agg['judged'] += s['judged']
    agg['ops'] += s['n_ops']
    agg['distinct'].add(s['distinct'])
    if s['nontrivial']:
        agg['distinct_nontrivial'].add(s['distinct'])
    if s['baseline']:
        agg['baseline_runs'] += 1
    agg['levels'][str(s['levels'])] = agg['levels'].get(str(s['levels']), 0) + 1
    agg['dotted'] += 1 if s['dotted'] else 0
    for k in s['kinds']:
        agg['kinds'][k] = agg['kinds'].get(k, 0) + 1
    if len(agg['digests']) < 400:
        agg['digests'][s['index']] = s['log_digest']
    if 'sample' in s and len(agg['samples']) < 4:
        agg['samples'].append(s['sample'])
    for v in s.get('violations', []):
        agg['violations'].append(v)


def coverage(agg):
    c = agg['counters']
    return {
        'evaluations': agg['runs'],
        'distinct_nontrivial': len(agg['distinct_nontrivial']),
        'rule': 'one evaluation = one history (3-20 operations: define / parse / name re-use / failed construction / '
                'forget / probes) over a generated chain of 2-3 levels in the real registry; non-trivial = it parses, '
                'through a derived module and judged against the flattened model, a chain in which an inherited rule '
                'reaches an overridden rule, or with a super reference, or with an inherited ignore pattern; distinct by '
                '(chain descriptions, operation sequence)',
        'samples': agg['samples'] or [{'note': 'no sampled history in this batch'}],
        'distinct_histories': len(agg['distinct']),
        'operations_executed': agg['ops'],
        'parses_judged_against_flattened_model': c.get('parses_judged', 0),
        'parses_skipped_because_readings_differ': c.get('ambiguous_readings_skipped', 0),
        'model_unavailable': c.get('model_unavailable', 0),
        'stability_probes': c.get('stability_probes', 0),
        'availability_names_checked': c.get('availability_checked', 0),
        'faults_fired_by_kind': {k: c.get(k, 0) for k in ('name_reuse', 'ctor_fail', 'forget', 'recreate')},
        'probes': {k: c.get(k, 0) for k in (
            'judged_through_derived_module', 'judged_through_grandchild', 'inherited_rule_reaches_overridden_rule',
            'chain_has_super_reference', 'inherited_ignore_pattern', 'judged_successful_parse', 'define', 'define_failed',
            'sibling_defined', 'judged_through_sibling')},
        'chain_length': agg['levels'],
        'histories_with_dotted_names': agg['dotted'],
        'fault_free_baseline_histories': agg['baseline_runs'],
        'real_vs_stub': {
            'real': ['sourcer.Grammar for every module of the chain', 'sys.modules / importlib', 'generated modules'],
            'stub': ['the user (scripted history)', 'reference model: the flattened chain, compiled by sourcer as one '
                     'plain unnamed grammar'],
        },
    }

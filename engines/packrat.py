"""Engine `packrat` -- C07: a rule is evaluated at most once per position (DESIGN 4.3).

What C07 constrains is the execution history of sourcer's own scheduler (`_run`): how often it
starts each task (rule body) and what it tells each waiter.  The history is recorded with
sys.monitoring events on the generator protocol between rule bodies and the driver -- PY_START
(a body starts, with its position), PY_YIELD (each request `(3, callee, pos)` and the one final
`(status, value, pos)`), PY_RESUME + the next LINE (what the waiting reference was sent) -- and
with inline-Python probes at the start of rule bodies.  Nothing of sourcer is patched or proxied.

Configurations searched: one call alone (S0); nested calls from probes (S1); interleaved calls
of several clients (S2); calls following aborted calls (S3).
"""
import json
import sys
import threading
import types

from simkit import fp as fpm, locks, mon, rng as rngm, spec, universe as U
from engines import common as C
from engines.common import flatten_records, static_chains

PROP = 'C07'
E = mon.E
KINDS = ['preempt', 'user_abort', 'reenter', 'gc', 'burst']
RUNS_PER_UNIVERSE = 8

REC = None      # the active Recorder (or None)


# ------------------------------------------------------------------------------- recorder

def _new_rec():
    return {'starts': {}, 'finals': {}, 'frames': {}, 'pending': {}, 'await': set(), 'root': None,
            'root_name': None, 'root_final': None, 'requests': {}, 'viol': [], 'checked': 0,
            'unattributed': 0, 'unobserved': 0, 'active': {}, 'left_recursion': False}


def _scope():
    c = U._CTX.get(threading.get_ident())
    if c is None or not c.stack:
        return None
    fr = c.stack[-1]
    if fr.rec is None:
        fr.rec = _new_rec()
    return fr.rec


def _on_start(code, off):
    R = REC
    if R is None:
        return
    rec = _scope()
    if rec is None:
        return
    f = sys._getframe(1)
    pos = f.f_locals.get('_pos')
    key = (code, pos)
    fid = id(f)
    rec['frames'][fid] = key
    if rec['root'] is None:
        rec['root'] = fid
        rec['root_name'] = code.co_name
    if code in R.rule_codes:
        rec['starts'][key] = rec['starts'].get(key, 0) + 1
        a = rec['active']
        if a.get(key):
            # the same rule at the same position is started while its earlier evaluation is still
            # in progress: left recursion -- not a well-formed PEG, C07 is not judged on this call
            rec['left_recursion'] = True
        a[key] = a.get(key, 0) + 1


def _on_yield(code, off, val):
    R = REC
    if R is None:
        return
    rec = _scope()
    if rec is None:
        return
    if not (isinstance(val, tuple) and len(val) == 3):
        return
    fid = id(sys._getframe(1))
    head = val[0]
    # a request is `(tag, callee, pos)` with a non-boolean tag and a callable callee; the one final
    # yield of a body is `(status, value, pos)` with a boolean status (the tag's value is sourcer's)
    if not isinstance(head, bool) and callable(val[1]):
        callee = val[1]
        rec['pending'][fid] = (callee, val[2])
        co = getattr(callee, '__code__', None)
        if co in R.rule_codes:
            k = (co, val[2])
            rec['requests'][k] = rec['requests'].get(k, 0) + 1
    else:
        key = rec['frames'].pop(fid, None)
        if key is not None:
            rec['finals'][key] = val
            if rec['active'].get(key):
                rec['active'][key] -= 1
        if fid == rec['root']:
            if head:
                summary = [True, fpm.value_fp(val[1], aliasing=False), val[2]]
            else:
                summary = [False, fpm.norm_text(getattr(val[1], '__name__', repr(val[1]))), val[2]]
            rec['root_final'] = summary
            rec['root'] = -1


def _on_resume(code, off):
    R = REC
    if R is None:
        return
    rec = _scope()
    if rec is None:
        return
    fid = id(sys._getframe(1))
    if fid in rec['pending']:
        rec['await'].add(fid)
        R.awaiting += 1


def _line_extra():
    R = REC
    if R is None or R.awaiting <= 0:
        return
    rec = _scope()
    if rec is None or not rec['await']:
        return
    f = sys._getframe(2)
    fid = id(f)
    if fid not in rec['await']:
        return
    rec['await'].discard(fid)
    R.awaiting -= 1
    callee, pos = rec['pending'].pop(fid)
    co = getattr(callee, '__code__', None)
    if co not in R.rule_codes:
        return
    loc = f.f_locals
    if '_status' not in loc or '_result' not in loc or '_pos' not in loc:
        rec['unobserved'] += 1
        return
    exp = rec['finals'].get((co, pos))
    if exp is None:
        rec['unattributed'] += 1
        return
    got = (loc['_status'], loc['_result'], loc['_pos'])
    rec['checked'] += 1
    same = got[1] is exp[1]
    if not same and not got[0] and not exp[0]:
        # "the same failure": a failure descriptor need not be the same object, only the same failure
        same = (getattr(got[1], '__name__', None) is not None
                and getattr(got[1], '__name__', None) == getattr(exp[1], '__name__', None)) or got[1] == exp[1]
    if not (bool(got[0]) == bool(exp[0]) and same and got[2] == exp[2]):
        rec['viol'].append({'check': 'same-outcome', 'rule': R.rule_codes[co], 'pos': pos,
                            'sent': [bool(got[0]), fpm.norm_text(repr(got[1]))[:80], got[2]],
                            'first': [bool(exp[0]), fpm.norm_text(repr(exp[1]))[:80], exp[2]],
                            'same_object': got[1] is exp[1]})


class Recorder:
    """attach(env) after the universe is set up; records per call scope (U.Frame.rec)."""

    def __init__(self, plan):
        self.plan = plan
        self.rule_codes = {}
        self.awaiting = 0
        self.gen_codes = []

    def __call__(self, env):
        global REC
        mon.install()
        for m in self.plan['universe']:
            h = env.handles.get(m['id'])
            if h is None or not h.ok:
                continue
            self.add_module(h.module, m.get('rules') or [])
        mon.register(E.PY_START, _on_start)
        mon.register(E.PY_YIELD, _on_yield)
        mon.register(E.PY_RESUME, _on_resume)
        mon.LINE_EXTRA = _line_extra
        env.on_call_end = self.on_call_end
        REC = self

    def add_module(self, module, names):
        ctx = getattr(module, '_ctx', None)
        for n in names:
            f = getattr(ctx, '_try_' + n, None) if ctx is not None else None
            if f is None:
                f = getattr(module, '_try_' + n, None)
            co = getattr(f, '__code__', None)
            if co is not None:
                self.rule_codes.setdefault(co, n)
        gens = [c for c in U.generated_codes(module) if c.co_flags & 0x20]
        mon.watch(gens, E.LINE | E.PY_START | E.PY_YIELD | E.PY_RESUME)
        self.gen_codes.extend(gens)

    def detach(self, env):
        global REC
        REC = None
        mon.LINE_EXTRA = None
        mon.watch(self.gen_codes, E.LINE)

    def on_call_end(self, r, fr, op):
        rec = fr.rec
        self.awaiting -= len(rec['await'])
        viol = list(rec['viol'])
        if rec['left_recursion']:
            r['c07'] = {'left_recursion': True}
            return
        for (co, pos), n in rec['starts'].items():
            if n > 1:
                viol.append({'check': 'at-most-once', 'rule': self.rule_codes.get(co, co.co_name), 'pos': pos,
                             'evaluations': n})
        seen = {}
        for tag, pos, kind in fr.fired:
            if kind == 'h':
                seen[(tag, pos)] = seen.get((tag, pos), 0) + 1
        for (tag, pos), n in seen.items():
            if n > 1:
                viol.append({'check': 'probe-once', 'tag': tag, 'pos': pos, 'firings': n})
        served = sum(n - 1 for n in rec['requests'].values() if n > 1)
        r['c07'] = {'starts': sum(rec['starts'].values()), 'keys': len(rec['starts']),
                    'served': served, 'checked': rec['checked'], 'unattributed': rec['unattributed'],
                    'unobserved': rec['unobserved'], 'viol': viol[:5], 'root_final': rec['root_final'],
                    'root_name': rec['root_name'], 'probe_firings': sum(seen.values())}


# ------------------------------------------------------------------------------- memo-less model

def memoless(module, fname, text, pos):
    """A memo-less model of the driver: push on request, pop on final yield (the oracle only)."""
    ctx = getattr(module, '_ctx', None)
    fn = getattr(ctx, fname, None) if ctx is not None else None
    if fn is None:
        fn = getattr(module, fname)
    if ctx is not None:
        def call(f, p):
            return f(ctx, text, p)
    else:
        def call(f, p):
            return f(text, p)
    stack = [call(fn, pos)]
    result = None
    while stack:
        result = stack[-1].send(result)
        if not isinstance(result[0], bool) and callable(result[1]):
            stack.append(call(result[1], result[2]))
            result = None
        else:
            stack.pop()
    return result


def memoless_outcome(chain, op, fname, budget):
    env = U.Env('ref', allow_nest=False)
    with U.isolated_registry():
        try:
            if chain == ('<builtin meta>',):
                mods = [U.builtin_module('meta')]
            else:
                mods = U.build_chain_fast(chain)
        except Exception as e:
            return ['ref-compile', type(e).__name__]

        def body(ctx):
            ctx.stack.append(U.Frame(None, ()))
            ctx.task.deadline = ctx.task.local + budget
            try:
                with locks.sut():
                    res = memoless(mods[-1], fname, U.fresh_text(op['text']), op.get('pos', 0))
                if res[0]:
                    return [True, fpm.value_fp(res[1], aliasing=False), res[2]]
                return [False, fpm.norm_text(getattr(res[1], '__name__', repr(res[1]))), res[2]]
            except mon.StepBudget:
                return ['budget']
            except locks.Deadlock:
                return ['exc', 'Deadlock']
            except Exception as e:
                return ['exc', type(e).__name__]
            finally:
                ctx.stack.pop()
        return U.run_inline(env, body)


# ------------------------------------------------------------------------------- universes

def amplify(r, e, p, lits):
    """Make references collide: the same rule is referred to again at the same position from
    several alternatives / lookaheads (C07's quantifier)."""
    k = e[0]
    if k == 'ref':
        if r.random() < p:
            t1, t2 = r.choice(lits), r.choice(lits)
            shape = r.choice(['alts', 'expect', 'longest', 'expect-right', 'notnot', 'via-template', 'via-template'])
            if shape == 'via-template':
                # the rule is reached once by name through a parameter and once directly
                return ['alt', ['left', ['call', 'Pt', e], ['lit', t1]], e]
            if shape == 'alts':
                return ['alt', ['left', e, ['lit', t1]], ['left', e, ['lit', t2]], e]
            if shape == 'expect':
                return ['seq', ['expect', e], e]
            if shape == 'longest':
                return ['longest', ['left', e, ['lit', t1]], e]
            if shape == 'expect-right':
                return ['right', ['expect', ['left', e, ['opt', ['lit', t1]]]], e]
            return ['right', ['expectnot', ['expectnot', e]], e]
        return e
    if k in ('lit', 're', 'super', 'py', 'hook', 'optable', 'call', 'kwcall', 'num', 'repn'):
        return e
    out = list(e)
    if k in ('seq', 'alt', 'longest', 'skip'):
        out[1:] = [amplify(r, x, p, lits) for x in e[1:]]
    elif k in ('opt', 'star', 'plus', 'expect', 'expectnot', 'rep', 'apply', 'where'):
        out[1] = amplify(r, e[1], p, lits)
    elif k in ('sep', 'sept', 'left', 'right'):
        out[1] = amplify(r, e[1], p, lits)
        out[2] = amplify(r, e[2], p, lits)
    elif k in ('hookv', 'hookp'):
        out[2] = amplify(r, e[2], p, lits)
    elif k == 'let':
        out[2] = amplify(r, e[2], p, lits)
        out[3] = amplify(r, e[3], p, lits)
    return out


def family(r, named):
    """Hand-shaped grammar families whose un-memoised evaluation is exponential in the input."""
    kind = r.choice(['nested-alts', 'lookahead-list', 'rep-choice', 'longest-nest', 'shared-prefix-seq', 'single-site',
                     'ignore-interplay'])
    long_texts = []
    n_long = r.choice([150, 400, 1200, 3000])
    hook = lambda tag, e: (['right', ['hook', tag], e] if r.random() < 0.8 else e)
    items = []
    table = {}
    if kind == 'nested-alts':
        # S = A "x" | A "y" | A ;  A = "(" S ")" | "a"      -- each level doubles without a memo
        items.append({'k': 'rule', 'name': 'start', 'expr': hook('h1', ['ref', 'S'])})
        items.append({'k': 'rule', 'name': 'S', 'expr': hook('h2', ['alt', ['left', ['ref', 'A'], ['lit', 'x']],
                                                                     ['left', ['ref', 'A'], ['lit', 'y']], ['ref', 'A']])})
        if r.random() < 0.5:
            items.append({'k': 'class', 'name': 'A', 'fields': [
                {'name': 'h', 'expr': ['hook', 'h3'], 'mod': 'pass'},
                {'name': 'v', 'expr': ['alt', ['left', ['right', ['lit', '('], ['ref', 'S']], ['lit', ')']], ['lit', 'a']], 'mod': ''}]})
        else:
            items.append({'k': 'rule', 'name': 'A', 'expr': hook('h3', ['alt', ['left', ['right', ['lit', '('], ['ref', 'S']], ['lit', ')']], ['lit', 'a']])})
        texts = []
        for d in (1, 3, 5, 7, 9, 12):
            t = '(' * d + 'a' + ''.join(r.choice([')', ')x', ')y']) for _ in range(d))
            texts.append(t)
            texts.append(t[:-1] + r.choice(['z', '(', '']))
        d = n_long
        long_texts = ['(' * d + 'a' + ')' * d, '(' * d + 'a' + ')x' * d + 'z']
    elif kind == 'shared-prefix-seq':
        # the outermost rule itself backtracks over a long body:  [H, B] "." | [H, B] "!" | [H, B]
        hb = ['seq', ['ref', 'H'], ['ref', 'B']]
        items.append({'k': 'rule', 'name': 'start', 'expr': ['alt', ['left', hb, ['lit', '.']], ['left', hb, ['lit', '!']], hb]})
        items.append({'k': 'rule', 'name': 'H', 'expr': hook('h1', ['left', ['re', '[ab]+'], ['lit', '=']])})
        items.append({'k': 'rule', 'name': 'B', 'expr': hook('h2', ['star', ['ref', 'W']])})
        if r.random() < 0.5:
            items.append({'k': 'class', 'name': 'W', 'fields': [
                {'name': 'h', 'expr': ['hook', 'h3'], 'mod': 'pass'},
                {'name': 'w', 'expr': ['re', '[a-c]'], 'mod': ''},
                {'name': 's', 'expr': ['opt', ['lit', ',']], 'mod': ''}]})
        else:
            items.append({'k': 'rule', 'name': 'W', 'expr': hook('h3', ['left', ['re', '[a-c]'], ['opt', ['lit', ',']]])})
        texts = ['ab=a,b,c!', 'ab=abc.', 'a=c,c,c', 'ab=a,b;', 'b=', 'ab=a,b,c,a,b,c,a,b,c?']
        long_texts = ['ab=' + 'a,b,c,' * (n_long // 3) + '!', 'ab=' + 'abc' * (n_long // 3) + '?']
    elif kind == 'single-site':
        # every rule below is referred to from exactly ONE place in the text of the grammar, and yet is
        # asked for again at the same position: the enclosing body runs from several start positions
        # (a variable-width prefix brings them to the same place), or the single site sits in a
        # parameterised rule that is invoked with different arguments at one position
        items.append({'k': 'rule', 'name': 'Kw', 'params': ['w'], 'expr': ['where', ['ref', 'N'], 'lambda v: v == w']})
        items.append({'k': 'rule', 'name': 'start', 'expr': ['star', ['alt', ['ref', 'X'], ['ref', 'K'], ['lit', 'a'], ['lit', ';']]]})
        items.append({'k': 'rule', 'name': 'X', 'expr': hook('h1', ['right', ['star', ['lit', 'a']], ['ref', 'R']])})
        if r.random() < 0.5:
            items.append({'k': 'class', 'name': 'R', 'fields': [
                {'name': 'h', 'expr': ['hook', 'h2'], 'mod': 'pass'},
                {'name': 'b', 'expr': ['lit', 'b'], 'mod': ''},
                {'name': 'c', 'expr': ['opt', ['ref', 'T']], 'mod': ''}]})
        else:
            items.append({'k': 'rule', 'name': 'R', 'expr': hook('h2', ['seq', ['lit', 'b'], ['opt', ['ref', 'T']]])})
        items.append({'k': 'rule', 'name': 'T', 'expr': hook('h3', ['plus', ['lit', 'c']])})
        items.append({'k': 'rule', 'name': 'K', 'expr': ['alt', ['call', 'Kw', ['lit', 'xy']], ['call', 'Kw', ['lit', 'x']], ['call', 'Kw', ['lit', 'y']]]})
        items.append({'k': 'rule', 'name': 'N', 'expr': hook('h4', ['re', '[xy]'])})
        texts = ['aaab', 'aaac', 'aabcc;aab', 'aaaa', 'xy;yx', 'aaxaab', 'abcabc;', 'aaa;aaab;x']
        long_texts = ['aaac' * n_long, ('aab' + 'c' * 3 + ';') * (n_long // 2) + 'aaaa']
    elif kind == 'ignore-interplay':
        # what the skipping of ignorable text evaluates is evaluated "within the parse call" like everything
        # else: (a) an ordinary rule that an ignore rule refers to as well (a comment starts with two
        # of the tokens that the grammar also uses singly), (b) a first token that may be empty, so that the
        # skip after it asks for the ignore rules again where the leading skip stopped
        sl = hook('h1', ['lit', '/'])
        items.append({'k': 'rule', 'name': 'start', 'expr': ['right', ['re', 'x*'], ['star', ['ref', 'Item']]]
                      if r.random() < 0.5 else ['star', ['ref', 'Item']]})
        items.append({'k': 'rule', 'name': 'Item', 'expr': hook('h2', ['alt', ['seq', ['ref', 'Sl'], ['ref', 'Name']],
                                                                       ['seq', ['ref', 'Sign'], ['ref', 'Num']], ['ref', 'Name']])})
        items.append({'k': 'rule', 'name': 'Sl', 'expr': sl})
        items.append({'k': 'rule', 'name': 'Sign', 'expr': hook('h3', ['re', 'x*'])})
        items.append({'k': 'rule', 'name': 'Num', 'expr': ['re', '[0-9]+']})
        if r.random() < 0.5:
            items.append({'k': 'class', 'name': 'Name', 'fields': [{'name': 'h', 'expr': ['hook', 'h4'], 'mod': 'pass'},
                                                                   {'name': 'n', 'expr': ['re', '[a-c]'], 'mod': ''}]})
        else:
            items.append({'k': 'rule', 'name': 'Name', 'expr': hook('h4', ['re', '[a-c]'])})
        items.append({'k': 'rule', 'name': 'Cm', 'ignore': True,
                      'expr': hook('h5', ['seq', ['ref', 'Sl'], ['ref', 'Sl'], ['re', '[a-c]+!']])})
        items.append({'k': 'rule', 'name': 'Sp', 'ignore': True, 'expr': hook('h6', ['re', '[ \\n]+'])})
        if r.random() < 0.5:
            items.reverse()
            items.sort(key=lambda it: it['name'] != 'start')
        texts = ['  /a', '/a /b //ab! /c', ' 7 x7', 'a  /b //c!\n /a', '//a!', ' x', '', ' /a//b! 12 ', 'xx /a b', '\n\n7']
        long_texts = [' /a //ab! 7 x7 b' * (n_long // 4), '  ' + '/a' * n_long]
    elif kind == 'lookahead-list':
        # start = List([Expect(T), T]) ; the result must contain one object twice
        items.append({'k': 'rule', 'name': 'start', 'expr': ['star', ['seq', ['expect', ['ref', 'T']], ['ref', 'T']]]})
        items.append({'k': 'class', 'name': 'T', 'fields': [
            {'name': 'h', 'expr': ['hook', 'h1'], 'mod': 'pass'},
            {'name': 'a', 'expr': ['re', '[ab]+'], 'mod': ''},
            {'name': 'b', 'expr': ['opt', ['ref', 'U']], 'mod': ''}]})
        items.append({'k': 'rule', 'name': 'U', 'expr': hook('h2', ['alt', ['seq', ['lit', '('], ['ref', 'T'], ['lit', ')']], ['lit', ';']])})
        texts = ['ab', 'ab;ba', 'a(b(a;))b;', 'a(b(a(b(a(b))))))', 'ab(', 'a(b(a;)']
        long_texts = ['ab;' * n_long, 'a(b;)' * n_long + '(']
    elif kind == 'rep-choice':
        # start = List((R << ",") | (R << ";") | R) ; R recursive through the same choice
        items.append({'k': 'rule', 'name': 'start', 'expr': hook('h1', ['star', ['ref', 'I']])})
        items.append({'k': 'rule', 'name': 'I', 'expr': ['alt', ['left', ['ref', 'R'], ['lit', ',']], ['left', ['ref', 'R'], ['lit', ';']], ['ref', 'R']]})
        items.append({'k': 'rule', 'name': 'R', 'expr': hook('h2', ['alt', ['seq', ['lit', '('], ['ref', 'I'], ['lit', ')']], ['re', '[a-c]']])})
        texts = ['a,b;c', '((a,),);', '(((((a)))))', '((((((b;));));));', '(((((c', 'a,(b;(c,(a;)))']
        long_texts = ['a,b;c' * n_long, '(a,);' * n_long + '(']
    else:
        # Longest(R << "x", R) nested
        items.append({'k': 'rule', 'name': 'start', 'expr': ['ref', 'L']})
        items.append({'k': 'rule', 'name': 'L', 'expr': hook('h1', ['longest', ['left', ['ref', 'R'], ['lit', 'x']], ['ref', 'R'], ['left', ['ref', 'R'], ['lit', 'y']]])})
        items.append({'k': 'rule', 'name': 'R', 'expr': hook('h2', ['alt', ['seq', ['lit', '('], ['ref', 'L'], ['lit', ')']], ['lit', 'a']])})
        texts = ['a', 'ax', '((a)x)y', '(((((a)x)y)x)y)', '((((((((a))))))))', '(((a)x']
        long_texts = ['(' * n_long + 'a' + ')x' * n_long, '(' * n_long + 'a' + ')' * (n_long - 1)]
    if kind != 'ignore-interplay' and r.random() < 0.4:
        items.append({'k': 'ignore', 'expr': ['re', ' +']})
        texts = [(' '.join(t) if r.random() < 0.5 else t) for t in texts]
    s = {'named': bool(named), 'extends': None, 'items': items}
    g = spec.Gen(r, features=[])
    decls = [x for x in items if x['k'] in ('rule', 'class')]
    for i, it in enumerate(decls):
        g.table[it['name']] = {'rank': float(i), 'nullable': True, 'kind': it['k']}
    # nullability by fixpoint (least: start from "consumes", grow) -- conservative for recursion
    for it in decls:
        g.table[it['name']]['nullable'] = False
    changed = True
    while changed:
        changed = False
        env = g._env()
        for it in decls:
            exprs = [it['expr']] if it['k'] == 'rule' else [f['expr'] for f in it['fields']]
            nb = all(spec.nullable(e, env) for e in exprs)
            if nb and not g.table[it['name']]['nullable']:
                g.table[it['name']]['nullable'] = True
                changed = True
    return s, g, texts, kind, long_texts


class MetaInfo:
    """The shipped meta-parser (sourcer/parser.py) as a member of the C07 workload: it carries its own
    copy of the driver; its inputs are grammar descriptions."""
    id = 0
    name = None
    extends = None
    parent = None
    desc = None
    chain = ('<builtin meta>',)
    builtin = 'meta'
    own = []
    gaps = []
    alphabet = list('ab=|()" \n')
    want_long = False
    long_texts = []
    binary = False

    def wire(self, t):
        return t

    def __init__(self, r):
        import sourcer.parser as P
        texts = []
        for _ in range(4):
            s, g = spec.gen_root(r, r.random() < 0.5, n_rules=r.randint(2, 4), hook_p=0.3)
            d = spec.render_module(s, 'vxmeta' if s['named'] else None)
            texts.append(d)
            if r.random() < 0.5:
                texts.append(spec.mutate_text(r, d, list('ab=|()" \n')))
        self.fixed_texts = texts
        self.texts = texts
        self.rules = {}
        self.super_rules = {}
        self.start = None
        names = []
        for n, f in sorted(vars(P).items()):
            co = getattr(f, '__code__', None)
            if n.startswith('_try_') and co is not None and co.co_argcount == 2 and (co.co_flags & 0x20) \
                    and not n.startswith('_try__'):
                names.append(n[len('_try_'):])
        self.rule_names = names

    def plan_entry(self):
        return {'id': 0, 'name': None, 'extends': None, 'desc': None, 'builtin': 'meta', 'rules': self.rule_names}


def gen_universe(r):
    infos = []
    if r.random() < 0.08:
        return [MetaInfo(r)]
    if r.random() < 0.10:
        # one of the repository's own grammars, with a long input of its own kind
        from simkit import corpus
        m = C.corpus_member(r, 0, r.random() < 0.5)
        if m is not None and not isinstance(U.chain_codes(m.chain), tuple):
            k = r.choice([40, 120, 400])
            m.long_texts = {
                'json': ['[' + ', '.join(['{"a": [1, 2, "x"]}'] * k) + ']', '[' * k + '1' + ']' * (k - 1)],
                'excel': ['=' + ' + '.join(['SUM(A1:B2, 3)'] * k), '=' + '(' * k + 'A1' + ')' * k + ' +'],
                'salesforce': [' + '.join(['f(x.y, 1)'] * k), '(' * k + 'a' + ')' * k + ' &&'],
                'tags': ['<a>' + '<b>x</b><c/>' * k + '</a>', '<a>' * k + 'x' + '</a>' * (k - 1)],
                'indentation': ['print a\n' * k + 'if b\n  print c', ''.join('%sif x\n' % ('  ' * i) for i in range(min(k, 60))) + '  ' * min(k, 60) + 'print y'],
            }[m.which]
            m.want_long = False
            m.alias_shape = False
            return [m]
    named0 = r.random() < 0.6
    fam_texts = None
    long_texts = []
    kind = None
    x0 = r.random()
    if x0 < 0.07:
        s0, g0, fam_texts = spec.binary_root(r, named0)
        long_texts = ['e\xff' + 'abab,abab;ab' * r.choice([40, 150, 500]) + '\x00']
    elif x0 < 0.5:
        s0, g0, fam_texts, kind, long_texts = family(r, named0)
    else:
        s0, g0 = spec.gen_root(r, named0, hook_p=0.8)
        # a pass-through template: the same rule reached by name through a parameter and directly
        if not any(it.get('name') == 'Pt' for it in s0['items']):
            s0['items'].append({'k': 'rule', 'name': 'Pt', 'params': ['x'], 'expr': ['left', ['ref', 'x'], ['opt', ['lit', '?']]]})
            g0.table['Pt'] = {'rank': -1.0, 'nullable': True, 'kind': 'template', 'arg_leftmost': True}
        for it in s0['items']:
            if it['k'] == 'rule' and not it.get('params') and not it.get('ignore'):
                it['expr'] = amplify(r, it['expr'], 0.5, g0.lits)
                if it['name'] == 'start' and r.random() < 0.5:
                    # the outermost rule itself backtracks over everything it has consumed
                    e = it['expr']
                    lead = None
                    if e[0] == 'right' and e[1][0] == 'hook':      # keep the probe at the start of the body
                        lead, e = e[1], e[2]
                    e = ['alt', ['left', e, ['lit', r.choice(g0.lits)]], ['left', e, ['lit', r.choice(g0.lits)]], e]
                    it['expr'] = ['right', lead, e] if lead is not None else e
            elif it['k'] == 'class':
                for f in it['fields']:
                    f['expr'] = amplify(r, f['expr'], 0.5, g0.lits)
    # a named ignore rule is a user-declared parameterless rule like any other: give it a probe
    for it in s0['items']:
        if it['k'] == 'rule' and it.get('ignore') and it['expr'][0] == 're' and r.random() < 0.7:
            it['gap_pattern'] = it['expr'][1]
            g0.tagn += 1
            it['expr'] = ['right', ['hook', 'hg%d' % g0.tagn], it['expr']]
    m0 = C.ModInfo(0, U.PREFIX + 'g0' if named0 else None, None, s0, g0)
    m0.fixed_texts = fam_texts
    m0.long_texts = long_texts
    m0.want_long = not fam_texts
    m0.alias_shape = bool(fam_texts) and kind == 'lookahead-list'
    infos.append(m0)
    if named0 and not m0.binary and r.random() < 0.35:
        s1, g1 = spec.gen_child(r, g0, hook_p=0.7)
        for it in s1['items']:
            if it['k'] == 'rule' and not it.get('ignore'):
                it['expr'] = amplify(r, it['expr'], 0.4, g1.lits)
        infos.append(C.ModInfo(1, U.PREFIX + 'g1', 0, s1, g1, parent=m0))
    good, bad = [], set()
    for m in infos:
        if m.extends in bad or isinstance(U.chain_codes(m.chain), tuple):
            bad.add(m.id)
            continue
        good.append(m)
    return good


# ------------------------------------------------------------------------------- execution and judgement

def execute(plan, schedule=None, refs=None):
    rec = Recorder(plan)
    res = C.simulate(plan, schedule, attach=rec)
    if res.get('harness'):
        return res
    env = res['env']
    if not rec.rule_codes:
        res['harness'] = 'packrat: no rule body of the universe could be instrumented'
        return res
    viol = []
    memoless_done = 0
    chains = res['chains']
    for where, op, r in res['flat']:
        if op['op'] != 'parse':
            continue
        c = r.get('c07')
        if c is None:
            continue
        if c.get('left_recursion'):
            env.count('calls_skipped_left_recursive_grammar')
            continue
        env.count('calls')
        env.count('rule_body_starts', c['starts'])
        env.count('references_served_from_memo', c['served'])
        env.count('answers_checked', c['checked'])
        env.count('answers_unattributed', c['unattributed'])
        env.count('answers_unobserved', c['unobserved'])
        env.count('probe_firings', c['probe_firings'])
        if c['served'] > 0:
            env.count('calls_nontrivial')
        if chains.get(op['mod']) == ('<builtin meta>',):
            env.count('calls_on_shipped_meta_parser')
        if C.text_len(op) >= 300:
            env.count('long_calls')
        bound = len(rec.rule_codes) * (C.text_len(op) + 1)
        if c['starts'] > bound:
            viol.append({'check': 'bound', 'where': where, 'op': U.strip_nests(op), 'starts': c['starts'], 'bound': bound})
        for v in c['viol']:
            viol.append(dict(v, where=where, op=U.strip_nests(op)))
        if op.get('expect_alias') and 'ok' in r['out']:
            # [Expect(T), T]: the result must contain one object twice
            if not _pairs_aliased(r['out']['ok']):
                viol.append({'check': 'same-object-in-result', 'where': where, 'op': U.strip_nests(op),
                             'result': r['out']['ok']})
            else:
                env.count('result_identity_checked')
        # semantic transparency of the memo: the same call under a memo-less driver
        if (not op.get('script') and c.get('root_final') is not None and memoless_done < 3
                and c.get('root_name') and (C.text_len(op) <= 40 or chains.get(op['mod']) == ('<builtin meta>',))):
            memoless_done += 1
            chain = chains.get(op['mod'])
            m = memoless_outcome(chain, op, c['root_name'], 40 * r['steps'] + 20_000)
            if m == ['budget']:
                env.count('memoless_budget_exceeded')
            elif m[0] in ('ref-compile', 'exc'):
                env.count('memoless_unavailable')
            else:
                env.count('memoless_compared')
                if m != c['root_final']:
                    viol.append({'check': 'memo-transparent', 'where': where, 'op': U.strip_nests(op),
                                 'with_memo': c['root_final'], 'memoless': m})
    res['violations'] = viol
    res['judged'] = env.counters.get('calls', 0)
    res['counters'] = dict(env.counters)
    return res


def _pairs_aliased(v):
    """value fingerprint of List([Expect(T), T]): every pair is [obj, ['alias', k]]."""
    if not (isinstance(v, list) and v and v[0] == 'L'):
        return True
    for pair in v[1:]:
        if isinstance(pair, list) and len(pair) == 3 and pair[0] == 'L' and isinstance(pair[1], dict):
            if not (isinstance(pair[2], list) and pair[2] and pair[2][0] == 'alias'):
                return False
    return True


LONG_P = 0.04


def _consumed(out, n):
    if 'ok' in out:
        return n
    if out.get('err') == 'PartialParseError':
        return out['last_position'][0]
    if out.get('err') == 'ParseError':
        return out['position'][0]
    return 0


class Planner(C.Planner):
    def long_text(self, mid):
        """A text of thousands of characters that the module consumes to a large part (C07: memo
        tables bounded 'for memory' only misbehave beyond some input length)."""
        m = self.infos[mid]
        if getattr(m, 'long_texts', None):
            return self.wr.choice(m.long_texts)
        if not getattr(m, 'want_long', False):
            return None
        sm = spec.Sampler(self.wr, m.rules, m.super_rules)
        best = None
        for _ in range(3):
            sm.long_n = self.wr.choice([150, 400, 1200, 3000])
            sm.budget = 400
            t = spec.join_tokens(self.wr, sm.item(m.start, 0), m.gaps)[:20000]
            if len(t) < 300:
                continue
            op = {'op': 'parse', 'mod': mid, 'entry': 'parse', 'text': t, 'pos': 0, 'full': True, 'budget': U.HARD_CAP}
            c = _consumed(self.ref(op)['out'], len(t))
            if best is None or c > best[0]:
                best = (c, t)
        if best is None or best[0] < 200:
            m.want_long = False
            return None
        m.long_texts = [best[1], best[1][:-1] + '\x00']
        return best[1]

    def gen_parse(self, mid, kinds, depth=0):
        if getattr(self.infos[mid], 'builtin', None):
            t = self.wr.choice(self.infos[mid].texts)
            return {'op': 'parse', 'mod': mid, 'entry': 'parse', 'text': t, 'pos': 0, 'full': True,
                    'budget': U.HARD_CAP, '_steps': 200_000}
        if depth == 0 and self.wr.random() < LONG_P:
            t = self.long_text(mid)
            if t is not None:
                op = {'op': 'parse', 'mod': mid, 'entry': 'parse', 'text': self.infos[mid].wire(t), 'pos': 0, 'full': True, 'budget': U.HARD_CAP}
                rec = self.ref(op)
                op['_steps'] = rec['steps']
                self.long_ops = getattr(self, 'long_ops', 0) + 1
                return op
        op = C.Planner.gen_parse(self, mid, kinds, depth)
        m = self.infos[mid]
        if getattr(m, 'alias_shape', False) and op['entry'] == 'parse' and op['pos'] == 0:
            op['expect_alias'] = True
        return op


def prepare(verif_seed, index):
    useed = rngm.derive('universe', verif_seed, PROP, index // RUNS_PER_UNIVERSE)
    C.warm_hot_lines(gen_universe(rngm.stream(useed, 'universe')))


def run_one(verif_seed, index, tier='quick'):
    seed = rngm.run_seed(verif_seed, PROP, index)
    useed = rngm.derive('universe', verif_seed, PROP, index // RUNS_PER_UNIVERSE)
    pl = Planner(seed, useed, PROP, universe_fn=gen_universe, kinds_pool=KINDS, runs_per_universe=RUNS_PER_UNIVERSE,
                 scale=C.scale_of(tier, index, RUNS_PER_UNIVERSE))
    plan = pl.plan(index, verif_seed)
    if plan is None:
        return {'index': index, 'empty': True}
    plan = C.strip_private(plan)
    res = execute(plan, refs=pl.refs)
    res['index'] = index
    res['plan'] = plan
    return res


def minimise(doc, budget_s=60):
    return C.minimise(doc, execute, finding_key, budget_s)


def finding_key(v):
    return 'packrat:%s' % v['violation'].get('check')


# ------------------------------------------------------------------------------- runner interface

ASSUMPTIONS = [
    'rule bodies are generator functions named _try_<rule> taking (_ctx,) _text, _pos and talk to the driver by '
    'yielding (3, callee, pos) requests and one final (status, value, pos): the recorder observes exactly this '
    'protocol; if no rule body can be instrumented the check fails as a harness error, never passes silently',
    'judged rules are the user-declared parameterless rules and classes of the description; the synthetic '
    '_ignored rule, anonymous rules, templates and argument helper functions are excluded',
    'the call scope is the harness-initiated parse call (module.parse / Rule.parse / Class.parse), including nested '
    'and interleaved ones, each judged on its own',
    'sampling, not proof: a clean batch is evidence',
]


def summarise(r):
    if r.get('empty'):
        return {'index': r['index'], 'empty': True}
    if r.get('harness'):
        return {'index': r['index'], 'harness': r['harness']}
    plan = r['plan']
    counters = r['counters']
    nontrivial_calls = []
    for where, op, rec in r['flat']:
        c = rec.get('c07')
        if c and c.get('served', 0) > 0 and op['op'] == 'parse':
            nontrivial_calls.append(rngm.digest([plan['universe'][0]['desc'], op['mod'], op['entry'], op['text'],
                                                 op.get('pos'), plan['policy']['kind'], bool(op.get('script'))]))
    s = {
        'index': r['index'], 'counters': counters, 'steps': r['steps'], 'switches': r['switches'],
        'judged': r['judged'], 'policy': plan['policy']['kind'], 'baseline': plan.get('baseline', False),
        'sig': r['sig'], 'log_digest': r['log_digest'], 'nontrivial_calls': nontrivial_calls,
        'n_clients': len(plan['clients']), 'family': plan.get('family'),
        'corpus': [m['corpus'] for m in plan['universe'] if m.get('corpus')],
    }
    if r['violations']:
        s['violations'] = [{'index': r['index'], 'violation': r['violations'][0], 'plan': plan,
                            'schedule': r['schedule']}]
    if r['index'] % 97 == 0:
        calls = []
        for where, op, rec in r['flat'][:6]:
            c = rec.get('c07')
            if c and op['op'] == 'parse' and 'starts' in c:
                calls.append({'where': where, 'entry': op['entry'], 'text': (op['text'] if isinstance(op['text'], list) else op['text'][:40]),
                              'rule_body_starts': c['starts'], 'served_from_memo': c['served'],
                              'answers_checked': c['checked']})
        s['sample'] = {'index': r['index'], 'policy': plan['policy'], 'universe': [m['desc'] for m in plan['universe']][:2],
                       'calls': calls}
    return s


def new_aggregate():
    return {'counters': {}, 'steps': 0, 'switches': 0, 'judged': 0, 'policies': {}, 'distinct_nontrivial': set(),
            'digests': {}, 'samples': [], 'baseline_runs': 0, 'baseline_calls': 0, 'empty': 0, 'clients': {}, 'sigs': set(), 'corpus': {}}


def aggregate(agg, s):
    if s.get('empty'):
        agg['empty'] += 1
        return
    if s.get('harness'):
        agg['harness'].append('run %s: %s' % (s['index'], s['harness']))
        return
    agg['runs'] += 1
    for k, v in s['counters'].items():
        agg['counters'][k] = agg['counters'].get(k, 0) + v
    agg['steps'] += s['steps']
    agg['switches'] += s['switches']
    agg['judged'] += s['judged']
    agg['policies'][s['policy']] = agg['policies'].get(s['policy'], 0) + 1
    agg['clients'][str(s['n_clients'])] = agg['clients'].get(str(s['n_clients']), 0) + 1
    agg['sigs'].add(s['sig'])
    for w in s.get('corpus', []):
        agg['corpus'][w] = agg['corpus'].get(w, 0) + 1
    agg['distinct_nontrivial'].update(s['nontrivial_calls'])
    if s['baseline']:
        agg['baseline_runs'] += 1
        agg['baseline_calls'] += s['judged']
    if len(agg['digests']) < 400:
        agg['digests'][s['index']] = s['log_digest']
    if 'sample' in s and len(agg['samples']) < 4:
        agg['samples'].append(s['sample'])
    for v in s.get('violations', []):
        agg['violations'].append(v)


def coverage(agg):
    c = agg['counters']
    return {
        'evaluations': c.get('calls', 0),
        'distinct_nontrivial': len(agg['distinct_nontrivial']),
        'rule': 'one evaluation = one recorded parse call (top-level, nested or interleaved) on a real generated '
                'module; non-trivial = at least one user rule was requested twice or more at one position inside the '
                'call (the memo had to serve a reference); distinct by (description, module, entry, text, offset, '
                'schedule policy, scripted or not)',
        'samples': agg['samples'] or [{'note': 'no sampled run in this batch'}],
        'simulated_runs': agg['runs'],
        'simulated_steps_total': agg['steps'],
        'simulated_virtual_seconds': round(agg['steps'] * 1e-6, 3),
        'rule_body_starts_recorded': c.get('rule_body_starts', 0),
        'references_served_from_memo': c.get('references_served_from_memo', 0),
        'answers_compared_by_identity': c.get('answers_checked', 0),
        'answers_unattributed': c.get('answers_unattributed', 0),
        'answers_unobserved': c.get('answers_unobserved', 0),
        'inline_probe_firings': c.get('probe_firings', 0),
        'result_identity_checked': c.get('result_identity_checked', 0),
        'memoless_model_compared': c.get('memoless_compared', 0),
        'calls_skipped_left_recursive_grammar': c.get('calls_skipped_left_recursive_grammar', 0),
        'long_input_calls(>=300 chars)': c.get('long_calls', 0),
        'calls_on_shipped_meta_parser': c.get('calls_on_shipped_meta_parser', 0),
        'memoless_model_budget_exceeded(exponential_families)': c.get('memoless_budget_exceeded', 0),
        'faults_fired_by_kind': {k: c.get(k, 0) for k in ('preempt', 'user_abort', 'reenter', 'gc', 'burst')},
        'calls_in_bursts(long-lived modules)': c.get('calls_in_bursts', 0),
        'configurations': {'S0_single_call_baseline_runs': agg['baseline_runs'], 'S0_calls': agg['baseline_calls'],
                           'S1_nested_calls': c.get('reenter', 0), 'S2_preemptions': c.get('preempt', 0),
                           'S3_aborted_calls': c.get('user_abort', 0)},
        'policies': agg['policies'],
        'clients_per_run': agg['clients'],
        'distinct_schedule_signatures': len(agg['sigs']),
        'runs_on_the_repositorys_own_grammars': agg['corpus'],
        'universes_that_did_not_compile': agg['empty'],
        'real_vs_stub': {
            'real': ['generated modules in full, including the driver _run whose scheduling is the subject',
                     'sys.monitoring events of CPython 3.12 as the observation channel (nothing patched)'],
            'stub': ['users (scripted clients and inline-Python probes)', 'thread scheduler (baton)',
                     'a 15-line memo-less model of the driver, as an oracle only'],
        },
    }

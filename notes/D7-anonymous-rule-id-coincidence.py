"""D7 (fixed by /repo 863172f).  Anonymous ignore rules were named _anonymous_{id(rule)}.  The rule objects of two
Grammar() calls have non-overlapping lifetimes (they are freed when Grammar() returns - checked with gc.get_objects()),
and CPython documents that such objects may have the same id().  When the anonymous rule of a sub-grammar got the
name of an inherited anonymous rule, `_ctx.__dict__.update(_super_ctx.__dict__)` followed by the child's own
assignments replaced the inherited implementation in the child's context: the parent's ignore pattern was silently
no longer skipped when parsing through the child.

Observed once by the lineage engine: VERIF_SEED=7, thorough tier, history 15531 (replays/pre-fix/
C13-D7-observed-once-address-dependent.json): C.R1.parse('aab~') -> PartialParseError at index 3, partial 'aab',
where the flattened model (and every re-execution with another allocator state) gives 'aab'.  It depends on the
allocator, so the file does not reproduce on demand.  This script shows, against the pre-fix code, that the symptom
is exactly what a coincidence of the two ids produces (run it in a checkout of /repo at fc7f452: exits 1; at or
after 863172f the names do not involve id() and it exits 0).
"""
import sys
from sourcer import Grammar
import sourcer.translator as T

A = Grammar('grammar d7a\n\nstart = R2\nR1 = R2\nR2 = "="\n')
T.id = lambda o: 4242          # what happens WHEN the two ids coincide
try:
    B = Grammar('grammar d7b extends d7a\n\nN1 = /[a-z]+/\nN0 = N1\nignore /~+/\n')
    C = Grammar('grammar d7c extends d7b\n\nR1 = (super.R1 | super.R1)\nN2 = "a"\nR2 = /[ab]+/\nignore /_+/\n')
finally:
    del T.id
try:
    out = C.R1.parse('aab~')
except Exception as e:
    out = '%s at %s, partial %r' % (type(e).__name__, getattr(e, 'last_position', None), getattr(e, 'partial_result', None))
print("C.R1.parse('aab~') ->", out)
sys.exit(0 if out == 'aab' else 1)

"""simkit: a deterministic simulator for jvs/sourcer (see /verif/DESIGN.md section 2).

Nothing in here draws from a clock or an unseeded PRNG.  Everything a run does is a
function of (VERIF_SEED, property id, run index) and of the code in /repo.
"""

"""The clock seam (DESIGN 10.15): the system under test reads simulated time.

sourcer reads no clock today.  A change that does (a time-to-live on a cache of parsed descriptions, a memo kept
"for 50 ms", a timeout on a lock) would make outcomes depend on wall time: failures would not replay.  So, while a
thread executes code of the system under test (`locks.sut()`), `time.time/monotonic/perf_counter` (and their `_ns`
forms) return a virtual time that is a function of the simulator's step counter plus the clock jumps injected so
far, and `time.sleep(d)` advances that time by d without sleeping.  Everywhere else (the harness's own deadlines)
the real functions run.  The fault kind `clock_jump` moves the virtual clock forward by 1 ms ... 1 day between two
operations of a client.
"""
import time as _time

from . import locks, mon

BASE = 1_800_000_000.0          # the virtual epoch (seconds)
STEP = 1e-6                     # one simulated step = one microsecond
_real = {}
_installed = False
OFFSET = [0.0]                  # seconds added by clock jumps and sleeps in the current process (a run = one process)
READS = [0]


def now():
    sim = mon._SIM
    steps = sim.step if sim is not None else 0
    return BASE + steps * STEP + OFFSET[0]


def _virtual(name, scale, integer):
    real = getattr(_time, name)
    _real[name] = real

    def f():
        if locks.sut_depth() > 0:
            READS[0] += 1
            v = now() * scale
            return int(v) if integer else v
        return real()
    f.__name__ = name
    return f


def _sleep(d):
    if locks.sut_depth() > 0:
        OFFSET[0] += max(0.0, float(d))
        return None
    return _real['sleep'](d)


def jump(seconds):
    OFFSET[0] += seconds


def install():
    global _installed
    if _installed:
        return
    for name, scale, integer in (('time', 1, False), ('monotonic', 1, False), ('perf_counter', 1, False),
                                 ('time_ns', 1e9, True), ('monotonic_ns', 1e9, True), ('perf_counter_ns', 1e9, True)):
        setattr(_time, name, _virtual(name, scale, integer))
    _real['sleep'] = _time.sleep
    _time.sleep = _sleep
    _installed = True

"""The repository's own grammars as members of the workload (DESIGN 3, 10.14): the Excel formula grammar
(examples/excel.py), the Salesforce formula grammar (tests/test_salesforce.py), and the documented
JSON, indentation and matching-tags grammars (docs/examples).  Their descriptions are read from the
repository's files at run time (so the current working tree is what is exercised), instrumented with a
few inline-Python probes by textual edits, and given hand-written texts.

They bring what the generated grammars do not have: keyword arguments, data-dependent rules and classes
(`let ... in`, class parameters, `where` over earlier fields), operator tables with predicates, Python
sections with imports, long real-world regexes.
"""
import os
import re

from . import universe as U

_REPO = None


def repo_root():
    global _REPO
    if _REPO is None:
        import sourcer
        _REPO = os.path.dirname(os.path.dirname(os.path.abspath(sourcer.__file__)))
    return _REPO


def _between(path, start, end=None):
    """The first r'''...''' block of a file after the marker `start`."""
    with open(os.path.join(repo_root(), path)) as f:
        s = f.read()
    i = s.index(start)
    a = s.index("r'''", i) + 4
    b = s.index("'''", a)
    return s[a:b]


def _dedent(desc):
    lines = desc.split('\n')
    ind = min((len(l) - len(l.lstrip()) for l in lines if l.strip()), default=0)
    return '\n'.join(l[ind:] for l in lines).strip('\n') + '\n'


def _edit(desc, pairs):
    for old, new in pairs:
        if old not in desc:
            raise ValueError('corpus instrumentation: %r not found' % old)
        desc = desc.replace(old, new, 1)
    return desc


H = lambda tag: '`hook("%s", _text, _pos)` >> ' % tag


def _excel():
    d = _dedent(_between('examples/excel.py', 'description ='))
    d = _edit(d, [
        ('Formula = "="? >> Expr', 'Formula = ' + H('x1') + '("="? >> Expr)'),
        ('Atom = "(" >> Expr << ")"', 'Atom = ' + H('x2') + 'AtomX\nAtomX = "(" >> Expr << ")"'),
        ('Word = /[a-zA-Z_\\@][a-zA-Z0-9_\\.\\@]*/', 'Word = ' + H('x3') + '/[a-zA-Z_\\@][a-zA-Z0-9_\\.\\@]*/'),
    ])
    texts = ['=SUM(B5:B15)', 'AB20', '$HZ$100', '=R[-1]C1', '=sheet1!Z$9', '=[data.xls]sheet1!$AA$11',
             '=IF(A1>0, "yes", {1,2;3,4})', '=1 + 2 * (3 - x) ^ 2 & "s"', '=SUM(B5:B15', '=A1 +', '= (A1, B2) C3', '=-5%',
             '=f(g(h(1,2),3),\n 4)', '#REF! + 1', "='my sheet'!A1"]
    entries = {'Atom': ['(1+2)', 'A1', '{1,2}', 'f(x)', '"s"'], 'CellRef': ['A1', 'sheet1!B2', 'R1C1', '[b]s!A1'],
               'FunctionCall': ['f(1, 2)', 'SUM(A1:B2)', 'f('], 'Expr': ['1+2', 'A1:B2', '-x^2'], 'Word': ['abc', '@x.y']}
    return d, texts, entries, list('=()+*,:$ABR1209"{};! \n')


def _salesforce():
    d = _dedent(_between('tests/test_salesforce.py', 'g = Grammar('))
    d = _edit(d, [
        ('Atom = Global | Identifier | Rational | Integer | String',
         'Atom = ' + H('s1') + '(Global | Identifier | Rational | Integer | String)'),
        ('Word = /[_a-zA-Z][_a-zA-Z0-9]*/', 'Word = ' + H('s2') + '/[_a-zA-Z][_a-zA-Z0-9]*/'),
        ('    arguments: "(" >> (Expression /? ",") << ")"', '    pass `hook("s3", _text, _pos)`\n    arguments: "(" >> (Expression /? ",") << ")"'),
    ])
    texts = ['1 + 2 * 3', 'foo == bar && fiz == buz', '1 <= 2 && (false || true)', 'foo.bar.baz', 'MIN(20, 10, 30) + MAX(11, 12, 13)',
             'IF(a.b > 1.5, "x", \'y\')', '$User.Name & "!"', '1 < 2 < 3', 'f(1,, 2)', '-(-x) ^ 2 ^ 3', 'a &&', 'f(g(h(1).k).m)\n + 2',
             '!a || b != c <> d']
    entries = {'Atom': ['$G', 'name', '1.5', '12', '"s"'], 'Expression': ['1+2', 'f(x).y', '(a)'], 'String': ['"a\\"b"', "'x'"],
               'ArgumentList': ['(1, 2)', '()', '(a,'], 'FieldAccess': ['.x', '.'], 'Integer': ['12', 'x']}
    return d, texts, entries, list('()+*,.&|=<>!$ab12"\' \n')


def _doc(md, edits, texts, entries, alphabet):
    d = _dedent(_between(os.path.join('docs', 'examples', md), 'g = Grammar('))
    return _edit(d, edits), texts, entries, alphabet


def _json():
    return _doc('json.md', [
        ('Value = Object', 'Value = ' + H('j1') + 'ValueX\nValueX = Object'),
        ('Member = [String, ":" >> Value]', 'Member = ' + H('j2') + '[String, ":" >> Value]'),
    ], ['123', '{}', '[123, -456, [], [789, "ten-eleven"]]', '{"foo": true, "bar": false}',
        '{"name": "Foobar", "counts": [10, 25], "parent": null}', '[1, 2', '{"a": }', '{"a": [1, {"b": [2, {"c": null}]}]}',
        '[\n 1,\n 2,\n x]', '"a\\"b"', '[[[[[[[[1]]]]]]]]', 'nul'],
        {'Value': ['1', '[1]', 'true'], 'Member': ['"k": 1', '"k" 1'], 'Array': ['[1, 2]', '[1,'], 'Object': ['{"a": 1}', '{'],
         'Keyword': ['true', 'null', 'nope']}, list('[]{}:,"1290.etrualsn \n'))


def _indent():
    return _doc('indentation.md', [
        ('Name = /[a-zA-Z]+/', 'Name = ' + H('i1') + '/[a-zA-Z]+/'),
        ('    name: "print" >> Name', '    pass `hook("i2", _text, _pos)`\n    name: "print" >> Name'),
    ], ['print foo\nprint bar', 'if zim\n  print zam\n  print zub', 'if fiz\n  if buz\n    print fizbuz',
        '\nprint ok\nif foo\n    if bar\n        print baz\n        print fiz\n    print buz\nprint zim\n',
        'if a\nprint b', 'if a\n  print b\n    print c', 'if a\n    print b\n  print c', 'print', 'if x\n\tprint y\n\tif z\n\t\tprint w'],
        {'Print': ['print x', 'print'], 'Name': ['abc', '1'], 'Newline': ['\n\n', 'x']}, list('ifprnt ab\n\t'))


def _tags():
    return _doc('matching_tags.md', [
        ('Item = Element | EmptyElement | Text', 'Item = ' + H('t1') + '(Element | EmptyElement | Text)'),
        ('Word = /[_a-zA-Z][_a-zA-Z0-9]*/', 'Word = ' + H('t2') + '/[_a-zA-Z][_a-zA-Z0-9]*/'),
    ], ['fiz', '<buz/>', '<foo>bar</foo>', 'zim <i>zam</i>', '<msg>hello <select/></msg>', '<a><b>x</b><c/></a>', '<a>x</b>',
        '<a><b>x</a></b>', '< input />', '<a>\n<b>\n</b>\n</a> tail', '<a', '<x><x><x>deep</x></x></x>'],
        {'Item': ['<a/>', 'text', '<a>b</a>'], 'Element': ['<h1>OK</h1>', '<h1>OK</h2>'], 'EmptyElement': ['<br/>', '<br>'],
         'Text': ['bim bam', '<'], 'Tag': [' open ', '1'], 'Document': ['a<b/>c', '']}, list('<>/ab x\n'))


MEMBERS = {'excel': _excel, 'salesforce': _salesforce, 'json': _json, 'indentation': _indent, 'tags': _tags}
_CACHE = {}


def load(which):
    """(description without header, texts, entry texts, alphabet) of one corpus grammar, or None when the
    repository's file no longer has the expected shape (the member is then left out, never a failure)."""
    if which not in _CACHE:
        try:
            _CACHE[which] = MEMBERS[which]()
        except Exception:
            _CACHE[which] = None
    return _CACHE[which]


def rule_names(desc):
    """Parameterless, non-ignored rules and classes of a description: [(kind, name)] (read with the shipped meta-parser)."""
    import sourcer.parser as P
    tree = P.parse(desc)
    out = []
    body = tree.body if isinstance(tree.body, list) else []
    for st in body:
        if isinstance(st, P.RuleDef) and st.name and not st.params and not st.is_ignored:
            out.append(('rule', st.name))
        elif isinstance(st, P.ClassDef) and not st.params:
            out.append(('class', st.name))
    return out


class CorpusModule:
    """One of the repository's grammars as a module of a universe."""
    extends = None
    parent = None
    gen = None
    binary = False
    gaps = []
    shadowed = False
    super_rules = {}

    def __init__(self, id, which, name=None):
        got = load(which)
        if got is None:
            raise ValueError('corpus member %s unavailable' % which)
        body, texts, entries, alphabet = got
        self.id = id
        self.which = which
        self.name = name
        self.desc = ('grammar %s\n\n' % name if name else '') + body
        self.chain = (self.desc,)
        self.fixed_texts = list(texts)
        self.texts = list(texts)
        self.alphabet = alphabet
        names = rule_names(self.desc)
        self.own = [{'k': k, 'name': n} for k, n in names if n.lower() != 'start']
        self.rules = {n: {'k': k, 'name': n} for k, n in names}
        self.entry_texts = entries
        self.start = None
        self.spec = {'items': []}

    def wire(self, t):
        return t

    def plan_entry(self):
        return {'id': self.id, 'name': self.name, 'extends': None, 'desc': self.desc, 'rules': sorted(self.rules),
                'corpus': self.which}

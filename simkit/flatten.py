"""The executable reference model for C13: flatten an extension chain into ONE plain grammar
(DESIGN 4.2).  No `extends`, no `super`, no context object, no sys.modules, no `ignore`.

For every (rule name, level) that has a definition one renamed rule `<name>__<level>` is
emitted; a plain reference to m is bound to the most-derived definition of m in the chain of
the module through which the parse is made; `super.m` written at level j is bound to the
most-derived definition below j.  `ignore` is rendered without the ignore feature: every
literal of a level for which an ignore declaration is in force becomes `lit << Ig`.
"""
import re

SUFFIX = re.compile(r'__\d+\b')
HELPERS = re.compile(r'\b(hlp|hlq)\b')


def _declares_ignore(level):
    """Ignore declarations of one level: ('anon', expr) or ('named', rule name)."""
    out = []
    for it in level['items']:
        if it['k'] == 'ignore':
            out.append(('anon', it['expr']))
        elif it['k'] == 'rule' and it.get('ignore'):
            out.append(('named', it['name']))
    return out


def _resolver(levels):
    """A named ignore rule is a rule like any other: the synthetic ignore rule refers to it by
    name, late-bound, so through module i it denotes the most-derived definition of that name
    (whether or not the overriding definition repeats the `ignore` modifier)."""
    top = {}
    for lv in levels:
        for it in lv['items']:
            if it['k'] == 'rule' and not it.get('params'):
                top[it['name']] = it['expr']

    def resolve(decl):
        return decl[1] if decl[0] == 'anon' else top[decl[1]]
    return resolve


def flatten(levels, i, reading='late'):
    """levels[0..i] are module specs ({'items': [...]}) root first.  Returns an unnamed module
    spec equivalent to parsing through level i.  reading: 'late' -- inherited rules skip the
    ignore patterns of every level up to i (the synthetic ignore rule is late-bound like any
    other rule); 'early' -- a rule skips the patterns in force at the level it was written in."""
    levels = levels[:i + 1]
    defs = {}
    for j, lv in enumerate(levels):
        for it in lv['items']:
            if it['k'] in ('rule', 'class') and not it.get('ignore'):
                defs.setdefault(it['name'], []).append(j)
    resolve = _resolver(levels)
    pats = []
    for lv in levels:
        seen, ps = [], []
        for d in _declares_ignore(lv):
            e = resolve(d)
            if e not in seen:
                seen.append(e)
                ps.append(e)
        pats.append(ps)
    ig_levels = [j for j, p in enumerate(pats) if p]

    # When the root itself declares ignore patterns, every literal of the chain is in force and (late
    # reading) skips the patterns of all levels: the flat grammar then simply declares those patterns
    # itself, so that its literals are compiled exactly like the implementation's (plain literals
    # with the skip flag) instead of `lit << Ig` wrappers, whose partial-success flags differ.
    native = bool(ig_levels) and ig_levels[0] == 0 and reading == 'late'

    helper_levels = {j for j, lv in enumerate(levels) if any(it['k'] == 'py' and it.get('helper') for it in lv['items'])}

    def in_force(j):
        return any(l <= j for l in ig_levels)

    def ig_name(j):
        if reading == 'late':
            return 'Ig'
        return 'Ig__%d' % max(l for l in ig_levels if l <= j)

    def top(m, below=None):
        c = [l for l in defs.get(m, []) if below is None or l < below]
        return max(c) if c else None

    def ren(e, j, bound):
        k = e[0]
        if k in ('lit', 're', 'liti'):
            if in_force(j) and not native and not (k == 'lit' and e[1] == ''):
                return ['left', e, ['ref', ig_name(j)]]
            return e
        if k == 'ref':
            if e[1] in bound:
                return e
            t = top(e[1])
            return ['ref', '%s__%d' % (e[1], t)] if t is not None else e
        if k == 'super':
            t = top(e[1], below=j)
            if t is None:
                return ['ref', 'Unresolved_super_%s' % e[1]]
            return ['ref', '%s__%d' % (e[1], t)]
        if k in ('py', 'hook', 'num'):
            return e
        if k == 'repn':
            return [k, ren(e[1], j, bound), e[2]]
        if k == 'kwcall':
            t = top(e[1])
            name = '%s__%d' % (e[1], t) if (t is not None and e[1] not in bound) else e[1]
            return ['kwcall', name, [[kw, ren(v, j, bound)] for kw, v in e[2]]]
        if k in ('seq', 'alt', 'longest', 'skip'):
            return [k] + [ren(x, j, bound) for x in e[1:]]
        if k in ('opt', 'star', 'plus', 'expect', 'expectnot'):
            return [k, ren(e[1], j, bound)]
        if k == 'rep':
            return [k, ren(e[1], j, bound), e[2], e[3]]
        if k in ('sep', 'sept', 'left', 'right'):
            return [k, ren(e[1], j, bound), ren(e[2], j, bound)]
        if k in ('apply', 'where'):
            # inline Python of a rule sees the helpers of the grammar the rule is written in
            return [k, ren(e[1], j, bound), HELPERS.sub(lambda m: '%s__%d' % (m.group(1), j), e[2]) if j in helper_levels else e[2]]
        if k in ('hookv', 'hookp'):
            return [k, e[1], ren(e[2], j, bound)]
        if k == 'let':
            return [k, e[1], ren(e[2], j, bound), ren(e[3], j, bound | {e[1]})]
        if k == 'call':
            t = top(e[1])
            name = '%s__%d' % (e[1], t) if (t is not None and e[1] not in bound) else e[1]
            return ['call', name] + [ren(x, j, bound) for x in e[2:]]
        if k == 'optable':
            return ['optable', ren(e[1], j, bound), [[a, [ren(o, j, bound) for o in ops]] for a, ops in e[2]]]
        raise ValueError(k)

    items = []
    for j, lv in enumerate(levels):
        for it in lv['items']:
            if it['k'] == 'py' and it.get('helper'):
                items.append({'k': 'py', 'code': HELPERS.sub(lambda m: '%s__%d' % (m.group(1), j), it['code'])})
    # the entry: the module's start rule is its own, else the nearest ancestor's
    # the module's start rule: its own first rule called start in any case, else the nearest
    # ancestor's (rule names are case-sensitive, the recognition of the start rule is not)
    def level_start(lv):
        for it in lv['items']:
            if it['k'] in ('rule', 'class') and not it.get('ignore') and it['name'].lower() == 'start':
                return it['name']
        return None
    starts = [level_start(lv) for lv in levels]
    for j in range(len(levels) - 1, -1, -1):
        if starts[j] is not None:
            items.append({'k': 'rule', 'name': 'start', 'expr': ['ref', '%s__%d' % (starts[j], j)]})
            break
    for j, lv in enumerate(levels):
        for it in lv['items']:
            if it['k'] == 'rule' and not it.get('ignore'):
                bound = set(it.get('params') or [])
                body = ren(it['expr'], j, bound)
                if it['name'] == starts[j] and in_force(j):
                    body = ['right', ['ref', ig_name(j)], body]
                new = {'k': 'rule', 'name': '%s__%d' % (it['name'], j), 'expr': body}
                if it.get('params'):
                    new['params'] = list(it['params'])
                items.append(new)
            elif it['k'] == 'class':
                fields = [dict(f, expr=ren(f['expr'], j, set())) for f in it['fields']]
                items.append({'k': 'class', 'name': '%s__%d' % (it['name'], j), 'fields': fields})
    if ig_levels:
        if reading == 'late':
            allp = []
            for j in ig_levels:
                for p in pats[j]:
                    if p not in allp:
                        allp.append(p)
            items.append({'k': 'rule', 'name': 'Ig', 'expr': ['skip'] + allp})
            if native:
                for p in allp:
                    items.append({'k': 'ignore', 'expr': p})
        else:
            for j in ig_levels:
                allp = [p for l in ig_levels if l <= j for p in pats[l]]
                items.append({'k': 'rule', 'name': 'Ig__%d' % j, 'expr': ['skip'] + allp})
    return {'named': False, 'extends': None, 'items': items}


def entry_name(levels, i, entry):
    """The flattened counterpart of an entry point of module i."""
    if entry == 'parse':
        return 'parse'
    kind, name = entry.split(':', 1)
    return '%s:%s__%d' % (kind, name, i)


def readings_differ(levels, i):
    """True when the two tenable readings of "A's ignore patterns combined with B's" can differ:
    some level above the first ignore-declaring level declares further patterns."""
    levels = levels[:i + 1]
    ig = [j for j, lv in enumerate(levels) if _declares_ignore(lv)]
    return len(ig) >= 2


def norm_names(x):
    """Strip level suffixes from class names and strings inside a fingerprint."""
    if isinstance(x, str):
        return SUFFIX.sub('', x)
    if isinstance(x, list):
        return [norm_names(v) for v in x]
    if isinstance(x, dict):
        return {k: norm_names(v) for k, v in x.items()}
    return x

"""Canonical, JSON-able fingerprints of parse outcomes (DESIGN 2.5)."""
import re

_ANON = re.compile(r'_anonymous_[0-9_]*[0-9]')
_ADDR = re.compile(r'0x[0-9a-fA-F]{6,}')


def norm_text(s):
    s = _ANON.sub('_anonymous_N', s)
    return _ADDR.sub('0xADDR', s)


def _is_parsed_object(v):
    return hasattr(v, '_fields') and hasattr(v, '_metadata') and not isinstance(v, type)


def _pos_info(meta):
    try:
        pi = meta.position_info
    except Exception as e:  # a scrambled / foreign metadata object
        return ['meta-error', type(e).__name__]
    return _plain(pi)


def _plain(v):
    if v is None or isinstance(v, (bool, int, float)):
        return v
    if isinstance(v, str):
        return v
    if isinstance(v, bytes):
        return ['bytes', v.decode('latin-1')]
    if isinstance(v, (tuple, list)):
        return [_plain(x) for x in v]
    return ['obj', type(v).__name__, norm_text(repr(v))]


def value_fp(value, aliasing=True):
    """Tree of type names, fields, scalars, position_info and the aliasing structure."""
    seen = {}

    def go(v, depth):
        if depth > 200:
            return ['too-deep']
        if v is None or isinstance(v, (bool, int, float)):
            return v
        if isinstance(v, str):
            # _StringLiteral etc. are str subclasses: keep the subclass name
            return v if type(v) is str else ['str', type(v).__name__, str(v)]
        if isinstance(v, bytes):
            return ['bytes', v.decode('latin-1')]
        key = id(v)
        if aliasing and key in seen:
            return ['alias', seen[key]]
        if isinstance(v, (list, tuple, dict)) or _is_parsed_object(v):
            seen[key] = len(seen)
        if _is_parsed_object(v):
            out = {'T': type(v).__name__}
            try:
                out['pi'] = _pos_info(v._metadata)
            except Exception as e:
                out['pi'] = ['meta-error', type(e).__name__]
            fields = {}
            for f in v._fields:
                try:
                    fields[f] = go(getattr(v, f), depth + 1)
                except AttributeError:
                    fields[f] = ['missing']
            out['f'] = fields
            return out
        if isinstance(v, list):
            return ['L'] + [go(x, depth + 1) for x in v]
        if isinstance(v, tuple):
            return ['T', type(v).__name__] + [go(x, depth + 1) for x in v]
        if isinstance(v, dict):
            return ['D'] + [[go(k, depth + 1), go(x, depth + 1)] for k, x in v.items()]
        if callable(v):
            return ['callable', norm_text(getattr(v, '__name__', type(v).__name__))]
        return ['obj', type(v).__name__, norm_text(repr(v))]

    return go(value, 0)


def outcome_fp(kind, payload, aliasing=True, messages=True):
    """kind: 'value' | 'exc'."""
    if kind == 'value':
        return {'ok': value_fp(payload, aliasing)}
    e = payload
    name = type(e).__name__
    if name == 'ParseError' and hasattr(e, 'position'):
        out = {'err': 'ParseError', 'position': _plain(e.position)}
        if messages:
            out['msg'] = norm_text(str(e))
        return out
    if name == 'PartialParseError' and hasattr(e, 'last_position'):
        out = {'err': 'PartialParseError', 'last_position': _plain(e.last_position),
               'partial': value_fp(getattr(e, 'partial_result', None), aliasing)}
        if messages:
            out['msg'] = norm_text(str(e))
        return out
    return {'err': name, 'msg': norm_text(str(e))[:300]}

"""The synchronisation seam (DESIGN 10.15): locks created by the system under test are simulated.

sourcer has no lock today; a change that "makes it thread-safe" would add one, and the typical defects of such a
change - a non-reentrant lock taken again by a nested parse, a lock that is not released when user code raises,
lock ordering between a parent and a child module - make a real thread block for ever.  Under the baton scheduler
that would hang the run (the blocked thread holds the baton) and end as a harness failure instead of a verdict.

So `threading.Lock`, `threading.RLock` and `threading._allocate_lock` (hence Condition, Semaphore, Event, Barrier)
are replaced by factories that return a SIMULATED lock when the creating thread is executing code of the system
under test (module construction, a parse call, the module's tools) and a real one otherwise (the harness's own
primitives).  A simulated lock never blocks the OS thread: a client that cannot take it tells the scheduler, which
runs somebody else; if nobody can run - or the client itself holds the lock - the attempt raises `Deadlock`
(a BaseException), which becomes the outcome `deadlock` of the operation and is judged like any other outcome.
"""
import threading
import _thread

from . import mon

_real_allocate = _thread.allocate_lock
_installed = False
_tls = threading.local()


class Deadlock(BaseException):
    """No client can run: every one of them waits for a lock that only a waiting (or finished) client could release."""


def sut_depth():
    return getattr(_tls, 'depth', 0)


class sut:
    """`with locks.sut():` -- the calling thread executes code of the system under test."""

    def __enter__(self):
        _tls.depth = getattr(_tls, 'depth', 0) + 1

    def __exit__(self, *exc):
        _tls.depth -= 1
        return False


class harness:
    """`with locks.harness():` -- code of the harness that runs inside a callback from the system under test
    (the scheduler parking a client): primitives created here are real."""

    def __enter__(self):
        self.saved = getattr(_tls, 'depth', 0)
        _tls.depth = 0

    def __exit__(self, *exc):
        _tls.depth = self.saved
        return False


def _task():
    sim = mon._SIM
    if sim is None:
        return None, None
    t = sim.cur
    if t is None or t.ident != threading.get_ident():
        return None, None
    return sim, t


class SimLock:
    reentrant = False

    def __init__(self):
        self._real = _real_allocate()
        self._owner = None
        self._count = 0

    def locked(self):
        return self._real.locked()

    def _take(self, t):
        if self._real.acquire(False):
            self._owner = t if t is not None else threading.get_ident()
            self._count = 1
            return True
        return False

    def acquire(self, blocking=True, timeout=-1):
        sim, t = _task()
        if sim is None:
            # not under the simulator (a module used outside a run): behave like the real thing
            me = threading.get_ident()
            if self.reentrant and self._owner == me:
                self._count += 1
                return True
            ok = self._real.acquire(blocking, timeout) if timeout != -1 else self._real.acquire(blocking)
            if ok:
                self._owner, self._count = me, 1
            return ok
        if self.reentrant and self._owner is t:
            self._count += 1
            return True
        spins = 0
        while True:
            if self._take(t):
                sim.lock_events += 1
                return True
            if not blocking:
                return False
            if timeout is not None and timeout >= 0 and spins >= 1:
                return False            # a timed wait: everybody else had a turn, the lock is still taken
            # (a client may wait for a lock it holds itself: a plain lock can be released by another client --
            # that is how Condition.wait works; whether anybody ever does is for the scheduler to find out)
            spins += 1
            sim.block(t, self)          # runs somebody else; raises Deadlock when nobody can run

    def release(self):
        if self.reentrant and self._count > 1:
            self._count -= 1
            return
        self._owner = None
        self._count = 0
        self._real.release()

    __enter__ = acquire

    def __exit__(self, *exc):
        self.release()
        return False

    # what threading.Condition expects of an RLock-like object
    def _is_owned(self):
        sim, t = _task()
        return self._owner is (t if sim is not None else threading.get_ident()) and self._real.locked()

    def _release_save(self):
        state = (self._count, self._owner)
        self._count, self._owner = 0, None
        self._real.release()
        return state

    def _acquire_restore(self, state):
        self.acquire()
        self._count, self._owner = state

    def _at_fork_reinit(self):
        self._real = _real_allocate()
        self._owner, self._count = None, 0


class SimRLock(SimLock):
    reentrant = True


_RealRLock = threading.RLock


def Lock(*a, **k):
    return SimLock() if sut_depth() > 0 else _real_allocate()


def RLock(*a, **k):
    return SimRLock() if sut_depth() > 0 else _RealRLock(*a, **k)


def install():
    """Idempotent.  Only the names in the `threading` module are replaced: importlib and the interpreter keep
    their own (`_thread.allocate_lock`)."""
    global _installed
    if _installed:
        return
    threading.Lock = Lock
    threading._allocate_lock = Lock
    threading.RLock = RLock
    _installed = True

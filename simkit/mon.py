"""The simulator core: sys.monitoring step clock + baton-passing scheduler (DESIGN 2, 2.2).

Simulated clients are real OS threads, but exactly one of them is ever unparked.  The
LINE callback (running in the thread that hit the line) advances the global step
counter -- the only clock -- and asks the policy whether to pre-empt; to switch it
releases the chosen task's semaphore and blocks on its own.  Who runs is therefore the
simulator's decision alone.
"""
import sys
import threading
import types

TOOL = 3
_mon = sys.monitoring
E = _mon.events

_SIM = None          # the Sim that currently owns the callbacks (or None)
_installed = False
LINE_EXTRA = None    # engine-specific recorder called on every counted LINE event (packrat)
TRACE = None         # when a list: the file name of every counted LINE event is appended (planner only)

INF = float('inf')


class StepBudget(BaseException):
    """Raised from the LINE callback into the system under test: bounded livelock."""


class HarnessError(Exception):
    pass


# ----------------------------------------------------------------------------- code objects

def codes_of_function(fn, seen, out):
    co = getattr(fn, '__code__', None)
    if isinstance(co, types.CodeType):
        _walk(co, seen, out)


def _walk(co, seen, out):
    if co in seen:
        return
    seen.add(co)
    out.append(co)
    for c in co.co_consts:
        if isinstance(c, types.CodeType):
            _walk(c, seen, out)


def codes_of_module(mod, filename=None):
    """Every code object reachable from the functions and classes defined in `mod`.

    With `filename`, only code objects compiled from that file (so that names re-exported
    from a parent grammar module are not attributed to the child)."""
    seen, out = set(), []
    for v in list(vars(mod).values()):
        if isinstance(v, types.FunctionType):
            codes_of_function(v, seen, out)
        elif isinstance(v, type):
            for a in list(vars(v).values()):
                f = getattr(a, '__func__', a)
                if isinstance(f, types.FunctionType):
                    codes_of_function(f, seen, out)
                elif isinstance(f, property):
                    for g in (f.fget, f.fset, f.fdel):
                        if g is not None:
                            codes_of_function(g, seen, out)
    if filename is not None:
        out = [c for c in out if c.co_filename == filename]
    return out


_library_codes = None


def library_codes():
    """Code objects of sourcer itself and of outsourcer (monitored while Grammar() is an operation)."""
    global _library_codes
    if _library_codes is None:
        import importlib
        import outsourcer
        import sourcer
        names = ['sourcer.grammar', 'sourcer.translator', 'sourcer.parser']
        import pkgutil
        import sourcer.expressions as sx
        for m in pkgutil.iter_modules(sx.__path__):
            names.append('sourcer.expressions.' + m.name)
        seen, out = set(), []
        for n in sorted(names):
            mod = importlib.import_module(n)
            for c in codes_of_module(mod):
                if c not in seen:
                    seen.add(c)
                    out.append(c)
        for c in codes_of_module(outsourcer):
            if c not in seen:
                seen.add(c)
                out.append(c)
        _library_codes = out
    return _library_codes


def install():
    global _installed
    if _installed:
        return
    if _mon.get_tool(TOOL) is None:
        _mon.use_tool_id(TOOL, 'simkit')
    _mon.register_callback(TOOL, E.LINE, _on_line)
    _installed = True


def watch(codes, events=None):
    install()
    ev = E.LINE if events is None else events
    for c in codes:
        _mon.set_local_events(TOOL, c, ev)


def unwatch(codes):
    for c in codes:
        _mon.set_local_events(TOOL, c, 0)


def register(event, fn):
    install()
    _mon.register_callback(TOOL, event, fn)


def set_global_events(ev):
    install()
    _mon.set_events(TOOL, ev)


# ----------------------------------------------------------------------------- bodies of modules under construction
#
# Grammar() executes the generated module: top-level code that fills the context object, imports from the
# parent module, sets flags.  These code objects do not exist before the construction, so they are caught
# as they start (a global PY_START under a second tool id; every other code location disables itself on its
# first event) and get LINE events from then on: the simulator can pre-empt a construction INSIDE the body
# of the module it is building.

TOOL2 = 4
_bodies_on = False
_STORE_OPS = frozenset(['STORE_ATTR', 'STORE_SUBSCR', 'DELETE_ATTR', 'DELETE_SUBSCR', 'IMPORT_FROM', 'IMPORT_NAME'])


def _is_generated_body(code):
    fn = code.co_filename
    return code.co_name == '<module>' and fn.startswith('<') and fn.endswith('>') and not fn.startswith('<frozen') \
        and fn not in ('<string>', '<stdin>')


def _on_any_start(code, off):
    if not _is_generated_body(code):
        return _mon.DISABLE
    sim = _SIM
    if sim is None:
        return None
    _mon.set_local_events(TOOL, code, _mon.get_local_events(TOOL, code) | E.LINE)
    # lines of the body that store into objects or import from other modules are shared-state lines
    import dis
    line = code.co_firstlineno
    for ins in dis.get_instructions(code):
        if ins.starts_line is not None:
            line = ins.starts_line
        if ins.opname in _STORE_OPS:
            sim.hot.add((code, line))
    sim.body_codes += 1
    return None


def watch_module_bodies(on):
    global _bodies_on
    if on and not _bodies_on:
        if _mon.get_tool(TOOL2) is None:
            _mon.use_tool_id(TOOL2, 'simkit-bodies')
        _mon.register_callback(TOOL2, E.PY_START, _on_any_start)
        _mon.set_events(TOOL2, E.PY_START)
        _bodies_on = True
    elif not on and _bodies_on:
        _mon.set_events(TOOL2, 0)
        _bodies_on = False


# ----------------------------------------------------------------------------- shared-state lines

_MUTATORS = frozenset(['setdefault', 'append', 'extend', 'insert', 'pop', 'popitem', 'clear', 'update', 'add',
                       'discard', 'remove', 'sort', 'reverse', '__setitem__', '__delitem__'])
_STORES = frozenset(['STORE_ATTR', 'STORE_SUBSCR', 'DELETE_ATTR', 'DELETE_SUBSCR'])
_HOT_CACHE = {}
import opcode as _opcode
_STORE_GLOBAL = bytes([_opcode.opmap['STORE_GLOBAL']])
_DELETE_GLOBAL = bytes([_opcode.opmap['DELETE_GLOBAL']])


def _shared_object(v):
    """A module-level object that calls could communicate through (not functions, classes, modules,
    immutable constants or bound C methods such as compiled regex matchers)."""
    if v is None or isinstance(v, (type, types.FunctionType, types.BuiltinFunctionType, types.ModuleType,
                                   types.MethodType, str, bytes, int, float, tuple, frozenset)):
        return False
    if isinstance(v, (dict, list, set, bytearray)):
        return True
    return not callable(v)


def hot_lines(code, globs, strict=False):
    """strict=True: only lines that name a module-level shared object, store a global or mutate state of
    a module (not the broad "stores into whatever it holds" criterion): used for pre-emption points
    INSIDE a line, where the shared state has to be on that very line.

    Lines of `code` that read or write state shared between calls: stores to globals, any use of a
    module-level mutable object, and -- in functions that are not rule bodies -- stores into
    attributes or items of whatever they hold.  A schedule that pre-empts at and right after such
    lines lands inside check-then-act and publish-before-complete windows.  On the unchanged tree
    this is the driver's memo stores, the finaliser's metadata writes and the entry points."""
    import dis
    key = (code, strict)          # the same code always lives in module dicts of the same shape
    hit = _HOT_CACHE.get(key)
    if hit is not None:
        return hit
    name = code.co_name
    rule_body = name.startswith(('_try_', '_parse_function', '_raise_error'))
    generated = code.co_filename.startswith('<') and code.co_filename.endswith('>')
    # cheap pre-filter (most code objects are rule bodies that touch no shared object at all)
    if (rule_body or not generated) and _STORE_GLOBAL not in code.co_code and _DELETE_GLOBAL not in code.co_code:
        interesting = False
        for n in code.co_names:
            v = globs.get(n)
            if _shared_object(v) or isinstance(v, types.ModuleType):
                interesting = True
                break
        if not interesting:
            res = frozenset()
            _HOT_CACHE[key] = res
            return res
    by_line = {}
    line = code.co_firstlineno
    for ins in dis.get_instructions(code):
        if ins.starts_line is not None:
            line = ins.starts_line
        by_line.setdefault(line, []).append(ins)
    out = set()
    for line, inss in by_line.items():
        ops = [i.opname for i in inss]
        if 'STORE_GLOBAL' in ops or 'DELETE_GLOBAL' in ops:
            out.add(line)
            continue
        if any(i.opname == 'LOAD_GLOBAL' and _shared_object(globs.get(i.argval)) for i in inss):
            out.add(line)
            continue
        stores = any(o in _STORES for o in ops)
        mutcall = any(i.opname in ('LOAD_ATTR', 'LOAD_METHOD') and isinstance(i.argval, str)
                      and (i.argval in _MUTATORS or i.argval.startswith('set')) for i in inss)
        # state of a *module* (sys.modules[...] = , sys.setrecursionlimit(...), parent.attr = ...)
        if (stores or mutcall) and any(i.opname == 'LOAD_GLOBAL' and isinstance(globs.get(i.argval), types.ModuleType)
                                       for i in inss):
            out.add(line)
            continue
        # in generated driver-level functions: stores into whatever they hold (memo, metadata, wrappers)
        if generated and not rule_body and (stores or mutcall) and not strict:
            out.add(line)
    res = frozenset((code, ln) for ln in out)
    if len(_HOT_CACHE) > 5000:
        _HOT_CACHE.clear()
    _HOT_CACHE[key] = res
    return res


_IPOINT_CACHE = {}
# CPython 3.12 checks the eval breaker (where another thread can take the GIL) after CALL-family instructions, at
# RESUME and at backward jumps; the last two start a function or a new line event anyway.  Only instructions that
# FOLLOW a call are therefore pre-emption points inside a line: an interleaving injected elsewhere (between a
# subscription and a store on builtin containers, say) could not happen in a real interpreter.
_CALL_OPS = frozenset(n for n in _opcode.opmap if n.startswith('CALL'))


def instr_points(code, hot):
    """Instruction offsets INSIDE shared-state lines of `code` at which another thread could get to run
    in CPython: right after a CALL-family instruction.  hot: set of (code, line)."""
    import dis
    key = code
    hit = _IPOINT_CACHE.get(key)
    if hit is not None:
        return hit
    lines = {ln for c, ln in hot if c is code}
    pts = {}
    if lines:
        line = code.co_firstlineno
        prev = None
        for ins in dis.get_instructions(code):
            if ins.starts_line is not None:
                line = ins.starts_line
                prev = None          # the first instruction of a line is a LINE event already
            if prev is not None and line in lines and prev in _CALL_OPS:
                pts[ins.offset] = line
            prev = ins.opname
    if len(_IPOINT_CACHE) > 5000:
        _IPOINT_CACHE.clear()
    _IPOINT_CACHE[key] = pts
    return pts


# ----------------------------------------------------------------------------- tasks

class Task:
    __slots__ = ('i', 'sem', 'local', 'done', 'deadline', 'fn', 'thread', 'ident',
                 'label', 'error', 'started', 'where', 'after_hot', 'blocked_on')

    def __init__(self, i, fn):
        self.i = i
        self.fn = fn
        self.sem = threading.Semaphore(0)
        self.local = 0
        self.done = False
        self.deadline = INF
        self.thread = None
        self.ident = None
        self.label = ''
        self.error = None
        self.started = False
        self.where = '<not-started>'     # code name at which this task is parked
        self.after_hot = False
        self.blocked_on = None           # the simulated lock this task waits for (simkit.locks)


def _on_line(code, line):
    sim = _SIM
    if sim is None:
        return
    t = sim.cur
    if t is None or t.ident != threading.get_ident():
        return
    s = sim.step = sim.step + 1
    n = t.local = t.local + 1
    if n > t.deadline:
        t.deadline = INF  # raise once; the operation wrapper re-arms it
        raise StepBudget()
    if LINE_EXTRA is not None:
        LINE_EXTRA()
    if TRACE is not None:
        TRACE.append(code.co_filename)
    if s >= sim.next_check:
        o = sim.policy.on_step(sim, t, code, line)
        if o is not None:
            sim._switch(t, o, code.co_name, line)


def _on_instr(code, offset):
    sim = _SIM
    if sim is None:
        return
    pts = sim.ipoints.get(code)
    if pts is None:
        return
    line = pts.get(offset)
    if line is None:
        return
    t = sim.cur
    if t is None or t.ident != threading.get_ident():
        return
    sim.ipoint_hits += 1
    o = sim.policy.on_instr(sim, t, code, offset)
    if o is not None:
        sim._switch(t, o, code.co_name, line, offset)


class Sim:
    """One simulated phase: a set of client tasks run to completion under a policy."""

    def __init__(self, policy, step0=0):
        self.policy = policy
        self.tasks = []
        self.cur = None
        self.step = step0
        self.next_check = INF
        self.switches = []      # [from, local_step, to]  (local_step == -1: hand-over at task end)
        self.log = []           # event log for the determinism digest
        self.sig = []           # schedule signature material
        self.pairs = set()      # overlap pairs: (code the pre-empted task was in, code the resumed task is parked in)
        self.hot = set()        # (code, line) touching state shared between calls (hot_lines)
        self.hot_hits = 0
        self.hot_strict = set() # the subset of hot that names module-level shared state on the line itself
        self.ipoints = {}       # code -> {instruction offset: line}: pre-emption points inside shared-state lines
        self.ipoint_hits = 0
        self.ipoint_codes = []
        self.body_codes = 0     # bodies of modules under construction that were put under LINE events
        self.lock_events = 0    # simulated locks taken by clients (simkit.locks)
        self.lock_blocks = 0    # ... attempts that found the lock taken and handed the baton on
        self._main = threading.Semaphore(0)
        self.failed = None

    # -- building
    def spawn(self, fn):
        t = Task(len(self.tasks), fn)
        self.tasks.append(t)
        return t

    def enable_instr(self, codes=None):
        """Pre-emption inside source lines: INSTRUCTION events on the code objects that own shared-state
        lines (Sim.hot), at the offsets computed by instr_points()."""
        install()
        _mon.register_callback(TOOL, E.INSTRUCTION, _on_instr)
        owners = {c for c, _ in self.hot_strict} if codes is None else set(codes)
        for c in owners:
            if c in self.ipoints:
                continue
            pts = instr_points(c, self.hot_strict)
            if pts:
                self.ipoints[c] = pts
                self.ipoint_codes.append(c)
                _mon.set_local_events(TOOL, c, _mon.get_local_events(TOOL, c) | E.LINE | E.INSTRUCTION)

    def disable_instr(self):
        for c in self.ipoint_codes:
            try:
                _mon.set_local_events(TOOL, c, _mon.get_local_events(TOOL, c) & ~E.INSTRUCTION)
            except Exception:
                pass
        self.ipoint_codes = []
        self.ipoints = {}

    # -- running
    def run(self, wall_timeout=120.0):
        global _SIM
        install()
        if _SIM is not None:
            raise HarnessError('nested Sim.run')
        if not self.tasks:
            return
        for t in self.tasks:
            th = threading.Thread(target=self._body, args=(t,), daemon=True)
            t.thread = th
            th.start()
        _SIM = self
        try:
            self.policy.begin(self)
            first = self.policy.first(self)
            self.first_id = first.i
            self.cur = first
            first.sem.release()
            if not self._main.acquire(timeout=wall_timeout):
                self.failed = 'wall-timeout'
                raise HarnessError('simulation did not finish within %.0fs wall' % wall_timeout)
        finally:
            _SIM = None
            self.cur = None
        for t in self.tasks:
            t.thread.join(timeout=10)
        for t in self.tasks:
            if t.error is not None:
                raise HarnessError('task %d died: %r' % (t.i, t.error)) from t.error

    def _body(self, t):
        t.sem.acquire()
        t.ident = threading.get_ident()
        t.started = True
        try:
            t.fn(t)
        except BaseException as e:  # harness bug: never leave the baton dangling
            t.error = e
        finally:
            self._finish(t)

    def _finish(self, t):
        t.done = True
        o = self.policy.on_end(self, t)
        if o is None or o.done or self._stuck(o):
            o = next((x for x in self.tasks if not x.done and not self._stuck(x)), None)
            if o is None:
                # only clients that wait for a taken lock are left: the one that runs next finds out that nobody can release it
                o = next((x for x in self.tasks if not x.done), None)
        if o is None:
            self.cur = None
            self._main.release()
            return
        self.switches.append([t.i, -1, o.i])
        self.log.append(('end', self.step, t.i, o.i))
        self.cur = o
        o.sem.release()

    MAX_SWITCHES = 30_000

    def _switch(self, t, o, name, line, offset=None):
        if o is t or o.done:
            return
        if len(self.switches) >= self.MAX_SWITCHES and name != '<blocked>':
            # a run with millions of steps under a dense schedule (long inputs x Bernoulli 0.1 x six clients) would spend
            # minutes handing the baton to and fro: after 30 000 switches the rest of the run is only pre-empted between
            # operations (deterministic: a count, not a clock)
            self.next_check = INF
            return
        if offset is None:
            self.switches.append([t.i, t.local, o.i])
            self.log.append(('sw', self.step, t.i, o.i, name, line))
        else:
            # inside a source line: the switch is identified by the line step and the instruction offset
            self.switches.append([t.i, t.local, o.i, offset])
            self.log.append(('swi', self.step, t.i, o.i, name, line, offset))
        self.sig.append((t.i, t.label, name, line) if offset is None else (t.i, t.label, name, line, offset))
        self.pairs.add((name, o.where))
        t.where = name
        from .locks import harness
        with harness():                 # the semaphores are the harness's own: never simulated
            self.cur = o
            o.sem.release()
            t.sem.acquire()

    def boundary(self, t, label):
        """An explicit yield point between operations of a client (counts as one step)."""
        self.step += 1
        t.local += 1
        t.label = label
        o = self.policy.on_boundary(self, t)
        if o is not None:
            self._switch(t, o, '<boundary>', 0)

    def others(self, t):
        return [x for x in self.tasks if not x.done and x is not t and not self._stuck(x)]

    @staticmethod
    def _stuck(x):
        b = x.blocked_on
        return b is not None and b.locked()

    def block(self, t, lock):
        """Client t found a simulated lock taken: somebody else runs (the scheduler's choice, recorded like any
        switch); when nobody can, this is a deadlock."""
        from .locks import Deadlock
        cands = self.others(t)
        if not cands:
            raise Deadlock('no client can run: every one of them waits for a lock')
        self.lock_blocks += 1
        o = self.policy.on_block(self, t, cands)
        if o is None or o not in cands:
            o = cands[0]
        t.blocked_on = lock
        try:
            self._switch(t, o, '<blocked>', 0)
        finally:
            t.blocked_on = None


# ----------------------------------------------------------------------------- policies

class Policy:
    name = 'policy'

    def begin(self, sim):
        pass

    def first(self, sim):
        return sim.tasks[0]

    def on_step(self, sim, t, code, line):
        return None

    def on_instr(self, sim, t, code, offset):
        return None

    def on_block(self, sim, t, cands):
        """t waits for a simulated lock: who runs instead (one of cands)."""
        r = getattr(self, 'rng', None)
        return r.choice(cands) if r is not None else cands[0]

    def on_boundary(self, sim, t):
        return None

    def on_end(self, sim, t):
        return None

    def describe(self):
        return {'policy': self.name}


class Sequential(Policy):
    """No pre-emption: clients run one after the other (the fault-free baseline)."""
    name = 'sequential'


class OpInterleave(Policy):
    """Switch only between operations: sequential histories that mix the clients' calls."""
    name = 'op-interleave'

    def __init__(self, rng, p=0.6):
        self.rng = rng
        self.p = p

    def first(self, sim):
        return self.rng.choice(sim.tasks)

    def on_boundary(self, sim, t):
        if self.rng.random() < self.p:
            o = sim.others(t)
            if o:
                return self.rng.choice(o)
        return None

    def on_end(self, sim, t):
        o = [x for x in sim.tasks if not x.done]
        return self.rng.choice(o) if o else None

    def describe(self):
        return {'policy': self.name, 'p': self.p}


class Bernoulli(Policy):
    """Pre-empt after a geometrically distributed number of steps (p per step)."""
    name = 'bernoulli'

    def __init__(self, rng, p):
        self.rng = rng
        self.p = p

    def _gap(self):
        import math
        u = self.rng.random()
        return 1 + int(math.log(1.0 - u) / math.log(1.0 - self.p))

    def begin(self, sim):
        sim.next_check = sim.step + self._gap()

    def first(self, sim):
        return self.rng.choice(sim.tasks)

    def on_step(self, sim, t, code, line):
        sim.next_check = sim.step + self._gap()
        o = sim.others(t)
        return self.rng.choice(o) if o else None

    def on_boundary(self, sim, t):
        if self.rng.random() < 0.3:
            o = sim.others(t)
            if o:
                return self.rng.choice(o)
        return None

    def on_end(self, sim, t):
        o = [x for x in sim.tasks if not x.done]
        return self.rng.choice(o) if o else None

    def describe(self):
        return {'policy': self.name, 'p': self.p}


class PCT(Policy):
    """d pre-emption points placed uniformly over the expected step count; random priorities."""
    name = 'pct'

    def __init__(self, rng, d, expected_steps):
        self.rng = rng
        self.d = d
        self.expected = max(10, int(expected_steps))
        self.points = []
        self.prio = {}

    def begin(self, sim):
        self.points = sorted(sim.step + self.rng.randrange(1, self.expected + 1) for _ in range(self.d))
        ids = [t.i for t in sim.tasks]
        self.rng.shuffle(ids)
        self.prio = {i: k for k, i in enumerate(ids)}
        sim.next_check = self.points[0] if self.points else INF

    def _best(self, cands):
        return min(cands, key=lambda x: self.prio[x.i]) if cands else None

    def first(self, sim):
        return self._best(sim.tasks)

    def on_step(self, sim, t, code, line):
        while self.points and self.points[0] <= sim.step:
            self.points.pop(0)
        sim.next_check = self.points[0] if self.points else INF
        # the running task drops to the lowest priority
        self.prio[t.i] = max(self.prio.values()) + 1
        return self._best(sim.others(t))

    def on_end(self, sim, t):
        return self._best([x for x in sim.tasks if not x.done])

    def describe(self):
        return {'policy': self.name, 'd': self.d, 'expected': self.expected}


class Targeted(Policy):
    """Window injection.  At a line that reads or writes state shared between calls (Sim.hot, from
    hot_lines()) and at the line right after it, pre-empt -- with high probability the first time
    the line is reached in the run, with low probability afterwards -- and let the other client
    run one whole operation *uninterrupted* inside that window before the pre-empted client
    resumes.  Exposes check-then-act, lazy initialisation and publish-before-complete windows
    whenever the other client's operation touches the same state."""
    name = 'targeted'
    HOT = frozenset(['_run', '_finalize_parse_info', '_map_index_to_line_and_column',
                     '_get_line_and_column', '_extract_excerpt', '_install_module',
                     'Grammar', '_parse_grammar', 'visit', '__hash__', 'compile'])

    def __init__(self, rng, q):
        self.rng = rng
        self.q = q                  # probability at a first visit; q/10 afterwards
        self.pending = False
        self.grace = None           # the client that currently runs uninterrupted
        self.back = None
        self.seen = set()

    def begin(self, sim):
        sim.next_check = 0

    def first(self, sim):
        return self.rng.choice(sim.tasks)

    def request(self):
        self.pending = True

    def _inject(self, sim, t):
        o = sim.others(t)
        if not o:
            return None
        o = self.rng.choice(o)
        self.grace, self.back = o, t
        return o

    def on_step(self, sim, t, code, line):
        if self.grace is t:
            return None
        if self.pending:
            self.pending = False
            if self.rng.random() < 0.3:
                return self._inject(sim, t)
        key = (code, line)
        hot = key in sim.hot
        if hot or t.after_hot:
            t.after_hot = hot
            sim.hot_hits += 1
            first = key not in self.seen
            self.seen.add(key)
            if self.rng.random() < (self.q if first else self.q * 0.1):
                return self._inject(sim, t)
            return None
        if code.co_name in self.HOT and self.rng.random() < self.q * 0.05:
            return self._inject(sim, t)
        return None

    def _resume(self, sim, t):
        self.grace = None
        b = self.back
        self.back = None
        if b is not None and not b.done and b is not t:
            return b
        return None

    def on_boundary(self, sim, t):
        if self.grace is t and t.local > 1:
            # the injected client has finished one whole operation: back to the pre-empted one
            return self._resume(sim, t)
        if self.grace is None and self.rng.random() < 0.2:
            o = sim.others(t)
            if o:
                return self.rng.choice(o)
        return None

    def on_end(self, sim, t):
        if self.grace is t:
            b = self._resume(sim, t)
            if b is not None:
                return b
        o = [x for x in sim.tasks if not x.done]
        return self.rng.choice(o) if o else None

    def describe(self):
        return {'policy': self.name, 'q': self.q}


class OneShot(Targeted):
    """One window injection per run, at the j-th shared-state line event (j drawn uniformly by the
    planner): the other client runs one whole operation inside that window.  Early injections
    'use up' first-use races (the injected operation initialises everything), so exactly one
    injection at a uniformly chosen point gives every window the same chance."""
    name = 'one-shot'

    def __init__(self, rng, j):
        Targeted.__init__(self, rng, 0.0)
        self.j = j
        self.count = 0
        self.fired = False
        self.visits = {}

    def on_step(self, sim, t, code, line):
        if self.grace is t or self.fired:
            return None
        key = (code, line)
        hot = key in sim.hot
        if hot or t.after_hot:
            # count DISTINCT shared-state lines (and the lines right after them) as they are first
            # reached in the run: every window gets the same chance, however often it recurs later
            k2 = key if hot else ('after', key)
            t.after_hot = hot
            sim.hot_hits += 1
            # ... up to the third time: the first use of a second call site or object runs through
            # the same line again
            n = self.visits.get(k2, 0) + 1
            if n > 3:
                return None
            self.visits[k2] = n
            self.count += 1
            if self.count == self.j:
                self.fired = True
                return self._inject(sim, t)
        return None

    def on_boundary(self, sim, t):
        if self.grace is t and t.local > 1:
            return self._resume(sim, t)
        return None

    def describe(self):
        return {'policy': self.name, 'j': self.j}


class InstrShot(OneShot):
    """One window injection per run INSIDE a source line: at the j-th visit of an instruction-level
    pre-emption point (instr_points: right after a call-out within a shared-state line) the other
    client runs one whole operation before the line completes -- `d[k] = d.get(k) or make(k)`,
    `ids[name] = len(ids)`, `obj.attr = build(obj.attr)` are check-then-act windows that no
    line-level schedule can enter."""
    name = 'instr-shot'
    cap = 3

    def begin(self, sim):
        sim.next_check = INF

    def on_step(self, sim, t, code, line):
        return None

    def on_instr(self, sim, t, code, offset):
        if self.grace is t or self.fired:
            return None
        k2 = (code, offset)
        n = self.visits.get(k2, 0) + 1
        if n > self.cap:
            return None
        self.visits[k2] = n
        self.count += 1
        if self.count == self.j:
            self.fired = True
            return self._inject(sim, t)
        return None

    def describe(self):
        return {'policy': self.name, 'j': self.j, 'cap': self.cap}


class RaceAt(Policy):
    """Client 0 runs u steps (of its first operation, a construction), then client 1 runs ALL its operations
    uninterrupted, then client 0 continues: one pre-emption at a uniformly chosen step.  The canonical
    schedule for non-reentrant code: whatever client 0 had saved, counted or half-written at step u is
    exposed to a complete foreign construction."""
    name = 'race'

    def __init__(self, u):
        self.u = u
        self.fired = False

    def begin(self, sim):
        sim.next_check = sim.step + self.u

    def on_step(self, sim, t, code, line):
        sim.next_check = INF
        if self.fired or t.i != 0:
            return None
        self.fired = True
        o = sim.others(t)
        return o[0] if o else None

    def on_end(self, sim, t):
        o = [x for x in sim.tasks if not x.done]
        return o[0] if o else None

    def describe(self):
        return {'policy': self.name, 'u': self.u}


class FirstVisit(Policy):
    """Pre-empt where a line of the system under test is executed for the first time in this run
    (by any client): lazy initialisation, check-then-act on shared state and publish-before-
    complete all live in code that runs once."""
    name = 'first-visit'

    def __init__(self, rng, q):
        self.rng = rng
        self.q = q
        self.seen = set()

    def begin(self, sim):
        sim.next_check = 0

    def first(self, sim):
        return self.rng.choice(sim.tasks)

    def on_step(self, sim, t, code, line):
        key = (code, line)
        if key in self.seen:
            return None
        self.seen.add(key)
        if self.rng.random() < self.q:
            o = sim.others(t)
            return self.rng.choice(o) if o else None
        return None

    def on_boundary(self, sim, t):
        if self.rng.random() < 0.3:
            o = sim.others(t)
            if o:
                return self.rng.choice(o)
        return None

    def on_end(self, sim, t):
        o = [x for x in sim.tasks if not x.done]
        return self.rng.choice(o) if o else None

    def describe(self):
        return {'policy': self.name, 'q': self.q}


class Replay(Policy):
    """Follow a recorded switch list exactly.  An entry whose local step is never reached,
    or whose target is finished, is skipped deterministically: every sub-list of a
    schedule is a schedule (needed for minimisation)."""
    name = 'replay'

    def __init__(self, switches, first=None):
        self.table = {}
        self.itable = {}
        self.ends = {}
        for sw in switches:
            f, n, to = sw[0], sw[1], sw[2]
            if n == -1:
                self.ends[f] = to
            elif len(sw) > 3 and sw[3] is not None:
                self.itable.setdefault(f, {}).setdefault((n, sw[3]), to)
            else:
                self.table.setdefault(f, {}).setdefault(n, []).append(to)
        self.first_id = first

    def begin(self, sim):
        sim.next_check = 0

    def first(self, sim):
        if self.first_id is not None and self.first_id < len(sim.tasks):
            return sim.tasks[self.first_id]
        return sim.tasks[0]

    def _target(self, sim, t):
        tab = self.table.get(t.i)
        if not tab:
            return None
        lst = tab.get(t.local)
        if not lst:
            return None
        to = lst.pop(0)         # several switches can share one line step (a line switch, then a blocked lock inside the line)
        if to is None or to >= len(sim.tasks):
            return None
        o = sim.tasks[to]
        return None if (o.done or o is t) else o

    def on_block(self, sim, t, cands):
        o = self._target(sim, t)
        return o if o in cands else cands[0]

    def on_step(self, sim, t, code, line):
        return self._target(sim, t)

    def on_instr(self, sim, t, code, offset):
        tab = self.itable.get(t.i)
        if not tab:
            return None
        to = tab.pop((t.local, offset), None)       # the first time this (line step, offset) is reached
        if to is None or to >= len(sim.tasks):
            return None
        o = sim.tasks[to]
        return None if (o.done or o is t) else o

    def on_boundary(self, sim, t):
        return self._target(sim, t)

    def on_end(self, sim, t):
        to = self.ends.get(t.i)
        if to is None or to >= len(sim.tasks):
            return None
        o = sim.tasks[to]
        return None if o.done else o

"""Seed derivation: one integer decides everything (DESIGN 2.1)."""
import hashlib
import random


def derive(*parts):
    """A 64-bit integer derived from the given parts (ints/strs), stable across processes."""
    h = hashlib.sha256('\x1f'.join(str(p) for p in parts).encode()).digest()
    return int.from_bytes(h[:8], 'big')


def run_seed(verif_seed, prop, index):
    return derive('run', verif_seed, prop, index)


def stream(seed, name):
    """An independent random.Random sub-stream; shrinking one dimension does not shift the others."""
    return random.Random(derive('stream', seed, name))


def digest(obj):
    import json
    return hashlib.sha256(json.dumps(obj, sort_keys=True, default=str).encode()).hexdigest()[:16]

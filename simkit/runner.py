"""Process pool, tiers, replay files, minimisation driver, evidence (DESIGN 2.6, 2.9).

Exit codes: 0 every explored run satisfied every check (known findings printed);
            1 VIOLATION property=<id> replay=<path>;
            2 harness failure (nondeterminism, worker death, timeout, internal exception).
"""
import argparse
import faulthandler
import json
import multiprocessing
import os
import resource
import subprocess
import sys
import time
import traceback
from concurrent.futures import ProcessPoolExecutor, wait, FIRST_COMPLETED

VERIF = os.path.dirname(os.path.dirname(os.path.abspath(__file__)))
REPLAYS = os.environ.get('VERIF_REPLAYS') or os.path.join(VERIF, 'replays')
EVIDENCE = os.path.join(VERIF, 'evidence')
KNOWN = os.path.join(VERIF, 'known_findings.json')

TIERS = {
    # wall budget (s) for exploration, cap on runs
    'quick': {'wall': 70, 'max_runs': 10**9, 'selftest': 6},
    'thorough': {'wall': 780, 'max_runs': 10**9, 'selftest': 40},
}
CHUNK = 12


def _limit_worker():
    try:
        resource.setrlimit(resource.RLIMIT_AS, (3 << 30, 3 << 30))
    except Exception:
        pass


def _import_engine(name):
    import importlib
    return importlib.import_module('engines.' + name)


class ForkError(Exception):
    pass


def fork_call(fn, timeout=600.0):
    """Run fn() in a freshly forked child and return its (pickled) result.

    Every execution of the system under test -- exploration run, minimiser candidate, self-test
    re-execution -- happens in such a child, forked from a process that has itself never executed
    sourcer code beyond importing it (or beyond preparing the universe).  Whatever state a run
    leaves in the library (module-level caches of sourcer, `re`, lru_caches ...) therefore cannot
    reach another run: one seed and one index are one exactly repeatable execution."""
    import pickle
    import select
    r, w = os.pipe()
    pid = os.fork()
    if pid == 0:
        code = 0
        try:
            os.close(r)
            # self-destruct (faulthandler's watchdog thread does not survive fork and deadlocks on re-arm)
            import signal
            signal.signal(signal.SIGALRM, signal.SIG_DFL)
            signal.alarm(int(timeout) + 30)
            try:
                payload = ('ok', fn())
            except BaseException:
                payload = ('exc', traceback.format_exc()[-3000:])
            data = pickle.dumps(payload, protocol=pickle.HIGHEST_PROTOCOL)
            with os.fdopen(w, 'wb') as f:
                f.write(data)
        except BaseException:
            code = 1
        finally:
            os._exit(code)
    os.close(w)
    chunks = []
    deadline = time.time() + timeout
    try:
        while True:
            left = deadline - time.time()
            if left <= 0:
                os.kill(pid, 9)
                os.waitpid(pid, 0)
                raise ForkError('child exceeded %.0fs wall' % timeout)
            ready, _, _ = select.select([r], [], [], min(left, 5.0))
            if ready:
                b = os.read(r, 1 << 20)
                if not b:
                    break
                chunks.append(b)
    finally:
        os.close(r)
    _, status = os.waitpid(pid, 0)
    data = b''.join(chunks)
    if not data:
        raise ForkError('child died without a result (wait status %d)' % status)
    kind, val = pickle.loads(data)
    if kind == 'exc':
        raise ForkError('child raised:\n' + val)
    return val


def run_group(engine_name, verif_seed, indices, tier):
    """One universe group: prepare the universe-level caches once, then one forked child per run."""
    eng = _import_engine(engine_name)
    from simkit import universe
    universe.start_ref_server()          # this process is still pristine: forked from a pool worker
    if hasattr(eng, 'prepare') and indices:
        try:
            eng.prepare(verif_seed, indices[0])
        except Exception:
            pass
    out = []
    for i in indices:
        def one(i=i):
            t1 = time.time()
            r = eng.run_one(verif_seed, i, tier)
            s = eng.summarise(r)
            s['wall'] = round(time.time() - t1, 3)
            return s
        try:
            out.append(fork_call(one, timeout=300))
        except ForkError as e:
            out.append({'index': i, 'harness': str(e)[-1500:]})
    return out


def _work(engine_name, verif_seed, indices, tier, chunk_timeout):
    """Pool worker: stays pristine; each universe group runs in a child forked from it."""
    try:
        return fork_call(lambda: run_group(engine_name, verif_seed, indices, tier), timeout=chunk_timeout)
    except ForkError as e:
        return [{'index': indices[0], 'harness': 'group %s: %s' % (indices[:1], str(e)[-1200:])}]


def load_known():
    try:
        with open(KNOWN) as f:
            return json.load(f)
    except FileNotFoundError:
        return {'findings': [], 'fixed': []}


def _fresh(cmd, env_extra=None, timeout=600):
    env = dict(os.environ)
    env.update(env_extra or {})
    return subprocess.run(cmd, capture_output=True, text=True, env=env, timeout=timeout, cwd=VERIF)


def main(engine_name, argv=None):
    ap = argparse.ArgumentParser()
    ap.add_argument('--tier', default=os.environ.get('VERIF_TIER', 'quick'), choices=['quick', 'thorough'])
    ap.add_argument('--replay')
    ap.add_argument('--wall', type=float)
    ap.add_argument('--runs', type=int)
    ap.add_argument('--start', type=int, default=0)
    ap.add_argument('--workers', type=int, default=int(os.environ.get('VERIF_WORKERS', '0')) or min(16, os.cpu_count() or 1))
    ap.add_argument('--digests', help='comma separated run indices: print their event-log digests and exit')
    ap.add_argument('--no-shrink', action='store_true')
    ap.add_argument('--no-evidence', action='store_true')
    ap.add_argument('--no-selftest', action='store_true')
    args = ap.parse_args(argv)

    # determinism: a fixed hash seed for the whole process tree (self-tests vary it on purpose)
    if os.environ.get('PYTHONHASHSEED') is None:
        os.environ['PYTHONHASHSEED'] = '0'
        os.execv(sys.executable, [sys.executable] + sys.argv)

    eng = _import_engine(engine_name)
    prop = eng.PROP
    verif_seed = int(os.environ.get('VERIF_SEED', '0') or 0)
    print('VERIF_SEED=%d property=%s engine=%s tier=%s' % (verif_seed, prop, engine_name, args.tier), flush=True)

    if args.replay:
        return replay(eng, args.replay)

    if args.digests:
        _limit_worker()
        for i in [int(x) for x in args.digests.split(',') if x]:
            s = _work(engine_name, verif_seed, [i], args.tier, 600)[0]
            print('DIGEST %d %s' % (i, s.get('log_digest')), flush=True)
        return 0

    cfg = dict(TIERS[args.tier])
    chunk = getattr(eng, 'RUNS_PER_UNIVERSE', CHUNK)
    if args.wall:
        cfg['wall'] = args.wall
    if args.runs:
        cfg['max_runs'] = args.runs
    t0 = time.time()
    agg = eng.new_aggregate()
    agg.update({'runs': 0, 'harness': [], 'violations': [], 'indices': [args.start, args.start]})
    next_index = args.start
    deadline = t0 + cfg['wall']
    chunk_timeout = 600
    ctx = multiprocessing.get_context('fork')
    harness_fail = None
    known_keys = {f.get('key') for f in load_known().get('findings', []) if f.get('property') == prop}

    def unknown_violations():
        # listed findings do not end the exploration early: a different violation must still be found
        return sum(1 for v in agg['violations'] if eng.finding_key(v) not in known_keys)
    with ProcessPoolExecutor(max_workers=args.workers, mp_context=ctx, initializer=_limit_worker) as ex:
        pending = set()

        def submit():
            nonlocal next_index
            n = min(chunk - next_index % chunk, args.start + cfg['max_runs'] - next_index)
            if n <= 0:
                return False
            idx = list(range(next_index, next_index + n))
            next_index += n
            pending.add(ex.submit(_work, engine_name, verif_seed, idx, args.tier, chunk_timeout))
            return True

        for _ in range(args.workers * 2):
            if not submit():
                break
        try:
            while pending:
                done, pending = wait(pending, timeout=chunk_timeout + 60, return_when=FIRST_COMPLETED)
                if not done:
                    harness_fail = 'pool stalled'
                    break
                for f in done:
                    for s in f.result():
                        if s.get('wall', 0) > agg.get('slowest', [0, 0])[0]:
                            agg['slowest'] = [s['wall'], s['index']]
                        eng.aggregate(agg, s)
                    if time.time() < deadline and unknown_violations() < 8:
                        submit()
        except Exception as e:  # BrokenProcessPool etc.
            harness_fail = 'worker pool failure: %r' % (e,)
            for f in pending:
                f.cancel()
    agg['indices'][1] = next_index
    explore_s = time.time() - t0
    if not harness_fail and not agg['harness'] and agg['runs'] == 0:
        harness_fail = 'nothing could be explored (no universe compiled / no run completed): never a pass'
    if (harness_fail or agg['harness']) and not agg['violations']:
        print('HARNESS-FAILURE: %s' % (harness_fail or agg['harness'][0]), flush=True)
        _write_evidence(eng, prop, args, verif_seed, agg, time.time() - t0, explore_s, harness=True)
        return 2
    if harness_fail or agg['harness']:
        # some runs died inside the harness, others found violations: the violations are reported
        # (each is confirmed by its own replay below); the harness trouble is not hidden
        print('HARNESS-NOTE: %d run(s) failed inside the harness: %s' % (
            len(agg['harness']) or 1, (harness_fail or agg['harness'][0])[:300].replace('\n', ' | ')), flush=True)

    # ---- determinism self-test on a sample of the explored runs (DESIGN 2.8)
    st = None
    if not args.no_selftest and agg['runs']:
        st = determinism_selftest(engine_name, eng, verif_seed, agg, cfg['selftest'], args.tier)
        agg['selftest'] = st
        if not st['ok'] and not agg['violations']:
            print('HARNESS-NONDETERMINISM: %s' % json.dumps(st)[:600], flush=True)
            _write_evidence(eng, prop, args, verif_seed, agg, time.time() - t0, explore_s, harness=True)
            return 2
        if not st['ok']:
            # runs differ between executions AND violations were found: the system under test itself
            # behaves differently from execution to execution (e.g. state keyed by object addresses).
            # The violations are reported below, each only after its replay reproduced.
            print('NOTE property=%s event logs of sampled runs differ between executions: %s' % (prop, json.dumps(st['mismatches'])[:300]), flush=True)

    # ---- violations: classify against the known findings, minimise, write replay files
    from simkit import universe
    universe.start_ref_server()          # this process never constructed a grammar: still pristine
    known = load_known()
    new, knownhits = [], {}
    for v in agg['violations']:
        k = eng.finding_key(v)
        hit = next((f for f in known.get('findings', []) if f.get('property') == prop and f.get('key') == k), None)
        if hit:
            knownhits.setdefault(k, hit)
        else:
            new.append(v)
    for k, f in sorted(knownhits.items()):
        print('KNOWN-FINDING: property=%s %s' % (prop, f.get('what', k)), flush=True)
    agg['known_hits'] = sorted(knownhits)
    code = 0
    reported = []
    os.makedirs(REPLAYS, exist_ok=True)
    seen_keys = set()
    for v in sorted(new, key=lambda v: v['index']):
        k = eng.finding_key(v)
        if k in seen_keys or len(reported) >= 3:
            continue
        seen_keys.add(k)
        path = os.path.join(REPLAYS, '%s-%d-%d-%d.json' % (prop, verif_seed, v['index'], len(reported)))
        doc = {'prop': prop, 'engine': engine_name, 'verif_seed': verif_seed, 'index': v['index'],
               'plan': v['plan'], 'schedule': v.get('schedule'), 'violation': v['violation'],
               'key': k, 'minimised': False}
        if not args.no_shrink:
            try:
                doc = eng.minimise(doc, budget_s=60 if args.tier == 'quick' else 180)
            except Exception:
                doc['minimise_error'] = traceback.format_exc()[-800:]
        with open(path, 'w') as f:
            json.dump(doc, f, indent=1, sort_keys=True)
        # the replay must reproduce in a fresh process before it is reported
        p = _fresh([sys.executable, os.path.join(VERIF, 'check'), prop, '--replay', path])
        if p.returncode != 1 or 'VIOLATION property=%s' % prop not in p.stdout:
            if p.returncode == 0 and doc.get('confirmed_in_process'):
                # observed, confirmed against the definitive reference and re-executed with the same
                # result in the process that found it, but not in a cold interpreter: behaviour that
                # depends on object addresses.  Reported; the file replays only with luck.
                print('NOTE property=%s replay %s reproduces in the finding process only (address-dependent behaviour)' % (prop, path), flush=True)
            else:
                print('HARNESS-NONDETERMINISM: replay %s did not reproduce (exit %s)\n%s' % (path, p.returncode, p.stdout[-800:] + p.stderr[-800:]), flush=True)
                _write_evidence(eng, prop, args, verif_seed, agg, time.time() - t0, explore_s, harness=True)
                return 2
        print('VIOLATION property=%s replay=%s' % (prop, path), flush=True)
        print('  ' + json.dumps(doc['violation'])[:1200], flush=True)
        reported.append(path)
        code = 1
    agg['reported'] = reported
    _write_evidence(eng, prop, args, verif_seed, agg, time.time() - t0, explore_s, harness=False)
    print('%s: runs=%d violations=%d known=%d wall=%.1fs (%.0f runs/h)' % (
        prop, agg['runs'], len(new), len(knownhits), time.time() - t0, agg['runs'] / max(explore_s, 1e-9) * 3600), flush=True)
    return code


def determinism_selftest(engine_name, eng, verif_seed, agg, n, tier):
    """Sampled runs are executed again in this process and once more in a fresh interpreter under
    a different PYTHONHASHSEED; the SHA-256 of the full event log must agree."""
    digests = agg.get('digests', {})
    idx = sorted(digests)[:: max(1, len(digests) // n)][:n]
    bad = []
    _limit_worker()
    for i in idx:
        r = _work(engine_name, verif_seed, [i], tier, 600)[0]
        if r.get('log_digest') != digests[i]:
            bad.append(['re-execution', i, digests[i], r.get('log_digest')])
    fresh = 0
    if idx:
        p = _fresh([sys.executable, os.path.join(VERIF, 'check'), eng.PROP, '--tier', tier,
                    '--digests', ','.join(map(str, idx))], {'PYTHONHASHSEED': '12345'})
        got = {}
        for line in p.stdout.splitlines():
            if line.startswith('DIGEST '):
                _, i, d = line.split()
                got[int(i)] = d
        for i in idx:
            fresh += 1
            if got.get(i) != digests[i]:
                bad.append(['fresh-interpreter', i, digests[i], got.get(i)])
    return {'ok': not bad, 'sampled': len(idx), 'fresh_interpreter': fresh, 'mismatches': bad[:5]}


def replay(eng, path):
    with open(path) as f:
        doc = json.load(f)
    _limit_worker()
    from simkit import universe
    universe.start_ref_server()          # a fresh interpreter is pristine
    want = doc.get('key')
    other = None
    known = {f.get('key'): f for f in load_known().get('findings', []) if f.get('property') == eng.PROP}
    # One attempt decides, except for behaviour that depends on object addresses (a cache keyed by
    # id(text)): there the allocator state of a cold interpreter differs from a warm one, so the
    # same file is executed up to three times in this process and the first reproduction counts.
    for attempt in range(3):
        res = eng.execute(doc['plan'], doc.get('schedule'))
        if res.get('harness'):
            print('HARNESS-FAILURE: %s' % res['harness'])
            return 2
        for v in res['violations']:
            k = eng.finding_key({'violation': v, 'plan': doc['plan']})
            if (want is None or k == want) and k in known:
                # a listed finding: reproduced, reported as such
                print('KNOWN-FINDING: property=%s %s' % (eng.PROP, known[k].get('what', k)))
                print('  attempt=%d %s' % (attempt + 1, json.dumps(v)[:2000]))
                return 0
            if want is None or k == want:
                print('VIOLATION property=%s replay=%s' % (eng.PROP, path))
                print('  attempt=%d %s' % (attempt + 1, json.dumps(v)[:2000]))
                return 1
        if res['violations'] and other is None:
            other = res['violations'][0]
    if other is not None:
        print('replay produced a different violation: %s' % json.dumps(other)[:800])
        print('VIOLATION property=%s replay=%s' % (eng.PROP, path))
        return 1
    print('replay: no violation reproduced')
    return 0


def _write_evidence(eng, prop, args, verif_seed, agg, wall, explore_s, harness):
    if args.no_evidence:
        return
    os.makedirs(EVIDENCE, exist_ok=True)
    cov = eng.coverage(agg)
    cov.setdefault('runs_per_hour', round(agg['runs'] / max(explore_s, 1e-9) * 3600))
    cov['run_indices'] = agg['indices']
    cov['workers'] = args.workers
    cov['slowest_run_wall_s_and_index'] = agg.get('slowest')
    cov['selftest_determinism'] = agg.get('selftest')
    cov['known_findings_hit'] = agg.get('known_hits', [])
    cov['harness_failure'] = bool(harness)
    doc = {
        'property_id': prop, 'tier': args.tier, 'seed': verif_seed, 'level': 'exploration',
        'coverage': cov, 'assumptions': eng.ASSUMPTIONS, 'wall_s': round(wall, 2),
        'violations': len(agg['violations']) - len([v for v in agg['violations']
                                                    if eng.finding_key(v) in set(agg.get('known_hits', []))]),
    }
    with open(os.path.join(EVIDENCE, prop + '.json'), 'w') as f:
        json.dump(doc, f, indent=1, sort_keys=True)

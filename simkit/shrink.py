"""Delta debugging helpers for minimising replay files (DESIGN 2.6)."""
import time


def ddmin(items, test, deadline, keep=None):
    """Smallest sub-list found (within the deadline) for which test(sublist) is true.
    test(items) is assumed true on entry."""
    items = list(items)
    n = 2
    while len(items) >= 1 and time.time() < deadline:
        if len(items) == 1:
            if test([]):
                return []
            return items
        size = max(1, len(items) // n)
        chunks = [items[i:i + size] for i in range(0, len(items), size)]
        reduced = False
        # try complements (remove one chunk)
        for i in range(len(chunks)):
            if time.time() >= deadline:
                return items
            cand = [x for j, c in enumerate(chunks) if j != i for x in c]
            if test(cand):
                items = cand
                n = max(n - 1, 2)
                reduced = True
                break
        if not reduced:
            if size == 1:
                break
            n = min(len(items), n * 2)
    return items

"""Structured grammar specs: AST, renderer, random generator, text sampler (DESIGN 3).

A grammar is generated as a small structured spec (JSON-able) so that the same spec can be
rendered as an extension chain *and* as its flattened equivalent (simkit/flatten.py), and so
that replay files can carry it.  Expressions are nested lists with a string head.

These are workload generators, nothing more; no oracle depends on knowing the right parse.
"""
import json

# --------------------------------------------------------------------------------- menus

LITS = ['a', 'b', 'c', 'ab', '(', ')', ',', ';', '+', '!', 'x', 'y', '=']
# (pattern, nullable, sample strings)
REGEXES = [
    ('[ab]+', False, ['a', 'b', 'ab', 'ba', 'aab', 'abba']),
    ('[0-9]+', False, ['1', '22', '907']),
    ('[a-c]', False, ['a', 'b', 'c']),
    ('c+', False, ['c', 'cc']),
    ('x*', True, ['', 'x', 'xx']),
    ('[xy]', False, ['x', 'y']),
    ('a|ab', False, ['a']),
    ('[a-c]+!', False, ['a!', 'cb!']),
    ('[a-z]+', False, ['a', 'b', 'foo', 'let', 'ab']),
    ('"[^"]*"', False, ['"a"', '""', '"b c"']),
]
RE_TABLE = {p: (n, s) for p, n, s in REGEXES}
# binary regexes (pattern text as written in a grammar, nullable, samples as latin-1 text)
BRE_TABLE = {'[\\x20-\\x7E]+': (False, ['a', 'xyz', 'A1 ']), '[\\x01-\\x0F]': (False, ['\x01', '\x0f']),
             '[\\x00-\\xFF]': (False, ['\x00', 'q', '\xff'])}
# extra patterns only used as ignorables (never sampled as content)
IGNORE_PATTERNS = [' +', '\\n+', '[ \\n]+', '#[^\\n]*', '~+', '_+', '~', '_']
IGNORE_SAMPLES = {' +': [' ', '  '], '\\n+': ['\n'], '[ \\n]+': [' ', '\n', ' \n '], '#[^\\n]*': ['#c'],
                  '~+': ['~'], '_+': ['_'], '~': ['~', '~~'], '_': ['_', '__', '___']}

# none of these looks at class names (the flattened model renames classes per level)
APPLY_FUNCS = ['lambda v: [v]', 'lambda v: (v, v)', 'lambda v: None', 'lambda v: {"k": v}', 'lambda v: v',
               'lambda v: [v, v]', 'lambda v: isinstance(v, str)',
               'lambda v: len(v) if isinstance(v, (str, list)) else v']
WHERE_FUNCS = ['lambda v: bool(v)', 'lambda v: True', 'lambda v: isinstance(v, str)',
               'lambda v: not isinstance(v, list) or len(v) % 2 == 0', 'lambda v: v != "a"',
               'lambda v: isinstance(v, (str, list)) and len(v) < 3']


# --------------------------------------------------------------------------------- render

def _q(s):
    return json.dumps(s)


def render_expr(e):
    k = e[0]
    if k == 'lit':
        return _q(e[1])
    if k == 're':
        return '/' + e[1] + '/'
    if k == 'liti':
        return _q(e[1]) + 'i'
    if k == 'byte':
        return '0x%02X' % e[1]
    if k == 'bre':
        return 'b/' + e[1] + '/'
    if k == 'blit':
        return 'b' + _q(e[1])
    if k == 'ref':
        return e[1]
    if k == 'super':
        return 'super.' + e[1]
    if k == 'seq':
        return '[' + ', '.join(render_expr(x) for x in e[1:]) + ']'
    if k == 'alt':
        return '(' + ' | '.join(render_expr(x) for x in e[1:]) + ')'
    if k == 'opt':
        return 'Opt(' + render_expr(e[1]) + ')'
    if k == 'star':
        return 'List(' + render_expr(e[1]) + ')'
    if k == 'plus':
        return 'Some(' + render_expr(e[1]) + ')'
    if k == 'rep':
        return '(' + render_expr(e[1]) + '){%s,%s}' % (e[2], e[3])
    if k == 'sep':
        return '(' + render_expr(e[1]) + ' // ' + render_expr(e[2]) + ')'
    if k == 'sept':
        return '(' + render_expr(e[1]) + ' /? ' + render_expr(e[2]) + ')'
    if k == 'left':
        return '(' + render_expr(e[1]) + ' << ' + render_expr(e[2]) + ')'
    if k == 'right':
        return '(' + render_expr(e[1]) + ' >> ' + render_expr(e[2]) + ')'
    if k == 'expect':
        return 'Expect(' + render_expr(e[1]) + ')'
    if k == 'expectnot':
        return 'ExpectNot(' + render_expr(e[1]) + ')'
    if k == 'apply':
        return '(' + render_expr(e[1]) + ' |> `' + e[2] + '`)'
    if k == 'where':
        return '(' + render_expr(e[1]) + ' where `' + e[2] + '`)'
    if k == 'py':
        return '`' + e[1] + '`'
    if k == 'hook':
        return '`hook(%s, _text, _pos)`' % _q(e[1])
    if k == 'hookv':
        return '(' + render_expr(e[2]) + ' |> `lambda v: hookv(%s, _text, _pos, v)`)' % _q(e[1])
    if k == 'hookp':
        return '(' + render_expr(e[2]) + ' where `lambda v: hookp(%s, _text, _pos, v)`)' % _q(e[1])
    if k == 'longest':
        return 'Longest(' + ', '.join(render_expr(x) for x in e[1:]) + ')'
    if k == 'skip':
        return 'Skip(' + ', '.join(render_expr(x) for x in e[1:]) + ')'
    if k == 'let':
        return '(let ' + e[1] + ' = ' + render_expr(e[2]) + ' in ' + render_expr(e[3]) + ')'
    if k == 'call':
        return e[1] + '(' + ', '.join(render_expr(x) for x in e[2:]) + ')'
    if k == 'kwcall':
        return e[1] + '(' + ', '.join('%s=%s' % (kw, render_expr(v)) for kw, v in e[2]) + ')'
    if k == 'num':
        return str(e[1])
    if k == 'repn':
        return '(' + render_expr(e[1]) + '){' + e[2] + '}'
    if k == 'optable':
        rows = []
        for assoc, ops in e[2]:
            rows.append('    %s: %s' % (assoc, ', '.join(render_expr(o) for o in ops)))
        return '(' + render_expr(e[1]) + ' between {\n' + '\n'.join(rows) + '\n})'
    raise ValueError('unknown expression kind %r' % (k,))


def render_item(it):
    k = it['k']
    if k == 'rule':
        head = ''
        if it.get('override'):
            head += 'override '
        if it.get('ignore'):
            head += 'ignore '
        params = ''
        if it.get('params'):
            params = '(' + ', '.join(it['params']) + ')'
        eq = ' => ' if it.get('params') else ' = '
        return head + it['name'] + params + eq + render_expr(it['expr'])
    if k == 'class':
        lines = []
        for f in it['fields']:
            mod = f.get('mod', '')
            if mod == 'pass':
                lines.append('    pass ' + render_expr(f['expr']))
            elif mod == 'let':
                lines.append('    let %s: %s' % (f['name'], render_expr(f['expr'])))
            else:
                lines.append('    %s: %s' % (f['name'], render_expr(f['expr'])))
        head = 'override ' if it.get('override_kw') else ''
        return head + 'class ' + it['name'] + ' {\n' + '\n'.join(lines) + '\n}'
    if k == 'ignore':
        return 'ignore ' + render_expr(it['expr'])
    if k == 'py':
        return '```\n' + it['code'] + '\n```'
    raise ValueError('unknown item kind %r' % (k,))


def render_module(m, name=None, extends=None):
    """The grammar description for one module spec.  `name`/`extends` are the registry names."""
    out = []
    if name:
        out.append('grammar ' + name + (' extends ' + extends if extends else ''))
        out.append('')
    if (m.get('single_expr') and len(m['items']) == 1 and m['items'][0].get('name') == 'start'
            and m['items'][0]['expr'][0] not in ('py', 'hook')):
        # (a description that consists of one bare inline-Python expression is a Python statement, not a start rule)
        # a grammar whose body is a single expression: an implicit start rule
        out.append(render_expr(m['items'][0]['expr']))
        return '\n'.join(out) + '\n'
    for it in m['items']:
        out.append(render_item(it))
    return '\n'.join(out) + '\n'


# --------------------------------------------------------------------------------- analysis

def children(e):
    k = e[0]
    if k in ('lit', 're', 'ref', 'super', 'py', 'hook', 'byte', 'bre', 'blit', 'liti', 'num'):
        return []
    if k == 'repn':
        return [e[1]]
    if k == 'kwcall':
        return [v for _, v in e[2]]
    if k in ('seq', 'alt', 'longest', 'skip'):
        return list(e[1:])
    if k in ('opt', 'star', 'plus', 'expect', 'expectnot'):
        return [e[1]]
    if k == 'rep':
        return [e[1]]
    if k in ('sep', 'sept', 'left', 'right'):
        return [e[1], e[2]]
    if k in ('apply', 'where'):
        return [e[1]]
    if k in ('hookv', 'hookp'):
        return [e[2]]
    if k == 'let':
        return [e[2], e[3]]
    if k == 'call':
        return list(e[2:])
    if k == 'optable':
        out = [e[1]]
        for _, ops in e[2]:
            out.extend(ops)
        return out
    raise ValueError(k)


def walk(e):
    yield e
    for c in children(e):
        yield from walk(c)


def item_exprs(it):
    if it['k'] == 'rule' or it['k'] == 'ignore':
        return [it['expr']]
    if it['k'] == 'class':
        return [f['expr'] for f in it['fields']]
    return []


def refs_in_item(it):
    out = []
    for ex in item_exprs(it):
        for n in walk(ex):
            if n[0] in ('ref', 'super'):
                out.append((n[0], n[1]))
            elif n[0] in ('call', 'kwcall'):
                out.append(('ref', n[1]))
    return out


def hook_tags(items):
    out = []
    for it in items:
        for ex in item_exprs(it):
            for n in walk(ex):
                if n[0] in ('hook', 'hookv', 'hookp'):
                    out.append((n[0], n[1]))
    return out


def nullable(e, env):
    """Conservative: True unless the expression certainly consumes input on success.
    env: rule name -> bool (missing = unknown = True)."""
    k = e[0]
    if k == 'lit':
        return len(e[1]) == 0
    if k == 're':
        return RE_TABLE.get(e[1], (True, None))[0]
    if k == 'byte' or k == 'liti':
        return False
    if k == 'blit':
        return len(e[1]) == 0
    if k == 'bre':
        return BRE_TABLE.get(e[1], (True, None))[0]
    if k in ('ref', 'super'):
        return env.get(e[1], True)
    if k == 'seq':
        return all(nullable(x, env) for x in e[1:])
    if k in ('alt', 'longest'):
        return any(nullable(x, env) for x in e[1:])
    if k in ('opt', 'star', 'expect', 'expectnot', 'py', 'hook', 'skip', 'sep', 'sept'):
        return True
    if k == 'plus':
        return nullable(e[1], env)
    if k == 'rep':
        return str(e[2]) == '0' or nullable(e[1], env)
    if k in ('left', 'right'):
        return nullable(e[1], env) and nullable(e[2], env)
    if k in ('apply', 'where'):
        return nullable(e[1], env)
    if k in ('hookv', 'hookp'):
        return nullable(e[2], env)
    if k == 'let':
        return nullable(e[2], env) and nullable(e[3], env)
    if k in ('call', 'kwcall', 'num', 'repn'):
        return True
    if k == 'optable':
        return nullable(e[1], env)
    raise ValueError(k)


# --------------------------------------------------------------------------------- generator

class Gen:
    """Generates one module spec at a time against a table of already-known rules.

    table: name -> {'rank': float, 'nullable': bool, 'kind': 'rule'|'class'|'template'|'ignore'}
    Rule of thumb that keeps every generated grammar well-founded (no left recursion, no
    repetition of a nullable expression): in leftmost position a rule refers only to rules
    of strictly higher rank; the operand of a repetition always consumes.
    """

    def __init__(self, rng, features=None, maxdepth=3):
        self.rng = rng
        self.maxdepth = maxdepth
        all_f = ['classes', 'sep', 'lookahead', 'apply', 'where', 'longest', 'regex', 'rep',
                 'template', 'optable', 'let', 'skip', 'pylit']
        if features is None:
            features = {f for f in all_f if rng.random() < 0.6}
        self.features = set(features)
        self.table = {}
        self.tagn = 0
        self.max_rep_lo = 2
        self.lits = rng.sample(LITS, rng.randint(3, 6))
        self.res = rng.sample([p for p, _, _ in REGEXES], rng.randint(1, 3))
        self.helper = False      # this level has a Python section that defines hlp(v) / hlq(v)
        self.lit_calls = []      # calls with a literal argument written so far along the chain

    # -- helpers
    def _terminal(self, consume):
        r = self.rng
        if 'regex' in self.features and r.random() < 0.35:
            cands = [p for p in self.res if not (consume and RE_TABLE[p][0])]
            if cands:
                return ['re', r.choice(cands)]
        if r.random() < 0.08:
            # a case-insensitive string literal (compiled as a regex)
            return ['liti', r.choice(['ab', 'b', 'xy'])]
        return ['lit', r.choice(self.lits)]

    def _ref_candidates(self, rank, leftmost, consume, allow_super_of=None):
        out = []
        for n, info in self.table.items():
            if info['kind'] in ('template', 'ignore'):
                continue
            if leftmost and not info['rank'] > rank:
                continue
            if consume and info['nullable']:
                continue
            out.append(n)
        return sorted(out)

    def expr(self, rank, leftmost, consume, depth, supers=()):
        """supers: names for which `super.<name>` may be generated here (child grammars)."""
        r = self.rng
        if depth >= self.maxdepth:
            if r.random() < 0.5:
                c = self._ref_candidates(rank, leftmost, consume)
                if c:
                    return ['ref', r.choice(c)]
            return self._terminal(consume)
        F = self.features
        kinds = [('term', 3.0), ('ref', 4.0), ('seq', 3.0), ('alt', 3.0)]
        if not consume:
            kinds += [('opt', 1.0), ('star', 1.0)]
            if 'sep' in F:
                kinds.append(('sep', 1.0))
            if 'lookahead' in F:
                kinds += [('expect', 0.8), ('expectnot', 0.5)]
            if 'skip' in F:
                kinds.append(('skip', 0.3))
            if 'pylit' in F:
                kinds.append(('pylit', 0.5))
        kinds += [('plus', 0.8), ('left', 0.8), ('right', 0.8)]
        if 'apply' in F:
            kinds.append(('apply', 0.8))
        if 'where' in F:
            kinds.append(('where', 0.5))
        if 'longest' in F:
            kinds.append(('longest', 0.6))
        if 'rep' in F:
            kinds.append(('rep', 0.4))
        if 'let' in F:
            kinds.append(('let', 0.3))
        if 'template' in F and any(i['kind'] == 'template' for i in self.table.values()):
            kinds.append(('call', 0.7))
        if supers:
            kinds.append(('super', 3.0))
        total = sum(w for _, w in kinds)
        x = r.random() * total
        for kind, w in kinds:
            x -= w
            if x <= 0:
                break
        d = depth + 1
        if kind == 'term':
            return self._terminal(consume)
        if kind == 'pylit':
            # a container literal in inline Python: must be a fresh object on every evaluation
            return ['py', r.choice(['[]', '{}', '[1, 2]', '{"k": []}', '[[]]', 'envprobe()', 'envprobe()'])]
        if kind == 'ref':
            c = self._ref_candidates(rank, leftmost, consume)
            if c:
                return ['ref', r.choice(c)]
            return self._terminal(consume)
        if kind == 'super':
            c = []
            for n in supers:
                info = self.table.get(n)
                if info is None:
                    continue
                if leftmost and not info['rank'] >= rank:
                    continue
                if consume and info.get('parent_nullable', True):
                    continue
                c.append(n)
            if c:
                return ['super', r.choice(sorted(c))]
            return self._terminal(consume)
        if kind == 'seq':
            n = r.randint(2, 3)
            items = []
            lm = leftmost
            for i in range(n):
                e = self.expr(rank, lm, consume and i == 0, d, supers)
                items.append(e)
                lm = lm and nullable(e, self._env())
            return ['seq'] + items
        if kind in ('alt', 'longest'):
            n = r.randint(2, 3)
            return [kind] + [self.expr(rank, leftmost, consume, d, supers) for _ in range(n)]
        if kind == 'opt':
            return ['opt', self.expr(rank, leftmost, False, d, supers)]
        if kind == 'star':
            return ['star', self.expr(rank, leftmost, True, d, supers)]
        if kind == 'plus':
            return ['plus', self.expr(rank, leftmost, True, d, supers)]
        if kind == 'rep':
            lo = r.choice([0, 1, 2]) if not consume else r.choice([1, 2])
            lo = min(lo, self.max_rep_lo)
            hi = lo + r.choice([0, 1, 2])
            if hi == 0:
                hi = 1
            return ['rep', self.expr(rank, leftmost, True, d, supers), lo, hi]
        if kind == 'sep':
            return [r.choice(['sep', 'sept']), self.expr(rank, leftmost, True, d, supers),
                    self.expr(rank, False, False, d, supers)]
        if kind in ('left', 'right'):
            a = self.expr(rank, leftmost, consume, d, supers)
            b = self.expr(rank, leftmost and nullable(a, self._env()), False, d, supers)
            return [kind, a, b]
        if kind == 'expect':
            return ['expect', self.expr(rank, leftmost, False, d, supers)]
        if kind == 'expectnot':
            return ['expectnot', self.expr(rank, leftmost, False, d, supers)]
        if kind == 'skip':
            return ['skip', self.expr(rank, leftmost, True, d, supers)]
        if kind == 'apply':
            f = 'hlp' if (self.helper and r.random() < 0.6) else r.choice(APPLY_FUNCS)
            return ['apply', self.expr(rank, leftmost, consume, d, supers), f]
        if kind == 'where':
            f = 'hlq' if (self.helper and r.random() < 0.5) else r.choice(WHERE_FUNCS)
            return ['where', self.expr(rank, leftmost, consume, d, supers), f]
        if kind == 'let':
            a = self.expr(rank, leftmost, consume, d, supers)
            b = self.expr(rank, leftmost and nullable(a, self._env()), False, d, supers)
            return ['let', 'v%d' % depth, a, ['seq', b, ['py', 'v%d' % depth]]]
        if kind == 'call':
            t = sorted(n for n, i in self.table.items() if i['kind'] == 'template')
            tn = r.choice(t)
            # Tw-like bodies ('"(" >> x << ")"') consume before the argument; a pass-through
            # template evaluates its argument first: the argument is then in leftmost position
            if self.table[tn].get('arg_leftmost'):
                return ['call', tn, self.expr(rank, leftmost, consume, d, supers)]
            if r.random() < 0.4:
                # the same few literals passed as arguments at several call sites
                return ['call', tn, ['lit', self.lits[r.randrange(0, 2)]]]
            return ['call', tn, self.expr(rank, False, False, d, supers)]
        raise AssertionError(kind)

    def _env(self):
        return {n: i['nullable'] for n, i in self.table.items()}

    def new_tag(self):
        self.tagn += 1
        return 'h%d' % self.tagn

    def add_hooks(self, e, p):
        """Wrap random sub-expressions with value/predicate probes."""
        r = self.rng
        k = e[0]
        if k in ('lit', 're', 'ref', 'super', 'byte', 'bre', 'blit', 'liti'):
            if r.random() < p:
                return [r.choice(['hookv', 'hookv', 'hookp']), self.new_tag(), e]
            return e
        if k in ('py', 'hook', 'optable', 'call', 'kwcall', 'num', 'repn'):
            return e
        out = list(e)
        if k in ('seq', 'alt', 'longest', 'skip'):
            out[1:] = [self.add_hooks(x, p) for x in e[1:]]
        elif k in ('opt', 'star', 'plus', 'expect', 'expectnot', 'rep', 'apply', 'where'):
            out[1] = self.add_hooks(e[1], p)
        elif k in ('sep', 'sept', 'left', 'right'):
            out[1] = self.add_hooks(e[1], p)
            out[2] = self.add_hooks(e[2], p)
        elif k in ('hookv', 'hookp'):
            out[2] = self.add_hooks(e[2], p)
        elif k == 'let':
            out[2] = self.add_hooks(e[2], p)
            out[3] = self.add_hooks(e[3], p)
        return out


def helper_section(level_tag, variant):
    """A Python section that defines the helpers hlp (a `|>` function) and hlq (a `where` predicate).  Every level
    of a chain that has one defines them DIFFERENTLY; inline Python of a rule sees the helpers of the grammar the
    rule is written in."""
    preds = ['True', 'not isinstance(v, str) or len(v) < 3', 'v != "a"', 'bool(v)']
    return {'k': 'py', 'helper': True,
            'code': 'def hlp(v):\n    return [%s, v]\n\ndef hlq(v):\n    return %s\n' % (_q(level_tag), preds[variant % len(preds)])}


def collect_lit_calls(items):
    out = []
    for it in items:
        for ex in item_exprs(it):
            for n in walk(ex):
                if n[0] == 'call' and len(n) == 3 and n[2][0] == 'lit':
                    out.append(n)
    return out


def is_start(name):
    return isinstance(name, str) and name.lower() == 'start'


def gen_root(rng, named, n_rules=None, hook_p=0.5, ignore=None, features=None, class_start=True, max_rep_lo=2,
             start_spelling=None, helpers_p=0.0):
    """A root (non-extending) module spec.  Returns (spec, gen) -- gen carries the rule table.
    ignore: None = random, 'none' | 'anon' | 'named'."""
    g = Gen(rng, features)
    g.max_rep_lo = max_rep_lo
    if helpers_p and rng.random() < helpers_p:
        g.helper = True
        g.features |= {'apply', 'where'}
    n = n_rules or rng.randint(2, 7)
    # the start rule is recognised whatever its case; rule names themselves are case-sensitive
    sname = start_spelling or 'start'
    names = [sname] + ['R%d' % i for i in range(1, n)]
    g.start_name = sname
    if ignore is None:
        ignore = rng.choice([None, None, 'anon', 'named'])
    elif ignore == 'none':
        ignore = None
    items = {}
    # templates first (they are referenced by calls)
    pre = []
    if 'template' in g.features:
        pre.append({'k': 'rule', 'name': 'Tw', 'params': ['x'],
                    'expr': ['left', ['right', ['lit', '('], ['ref', 'x']], ['lit', ')']]})
        g.table['Tw'] = {'rank': -1.0, 'nullable': False, 'kind': 'template'}
    # generate in reverse rank order so that higher-ranked rules are known
    for i in range(n - 1, -1, -1):
        name = names[i]
        rank = float(i)
        as_class = ('classes' in g.features and i > 0 and rng.random() < 0.35) \
            or ('classes' in g.features and i == 0 and not ignore and class_start and rng.random() < 0.15)
        if as_class:
            name = names[i] = 'C%d' % i
        if i == n - 1:
            body = g._terminal(True) if rng.random() < 0.7 else g.expr(rank, True, True, 1)
        elif 'optable' in g.features and i == n - 2 and rng.random() < 0.5:
            rows = []
            if rng.random() < 0.6:
                rows.append(['mixfix', [['left', ['right', ['lit', '('], ['ref', name]], ['lit', ')']]]])
            if rng.random() < 0.5:
                rows.append(['prefix', [['lit', '!']]])
            if rng.random() < 0.5:
                rows.append(['postfix', [['lit', ';']]])
            rows.append([rng.choice(['left', 'right']), [['lit', '+']]])
            if rng.random() < 0.5:
                rows.append([rng.choice(['left', 'right']), [['lit', '='], ['lit', ',']]])
            body = ['optable', ['ref', names[i + 1]], rows]
        else:
            body = g.expr(rank, True, i != 0 or rng.random() < 0.5, 0)
        if as_class:
            nf = rng.randint(1, 3)
            fields = []
            lm = True
            for j in range(nf):
                fe = body if j == 0 else g.expr(rank, lm, False, 1)
                lm = lm and nullable(fe, g._env())
                mod = '' if j == 0 else rng.choice(['', '', '', 'let', 'pass'])
                fields.append({'name': 'f%d' % j, 'expr': fe, 'mod': mod})
            cname = name   # a class at rank 0 is the first item and therefore the start
            items[i] = {'k': 'class', 'name': cname, 'fields': fields}
            g.table[cname] = {'rank': rank, 'nullable': all(nullable(f['expr'], g._env()) for f in fields),
                              'kind': 'class'}
        else:
            items[i] = {'k': 'rule', 'name': name, 'expr': body}
            g.table[name] = {'rank': rank, 'nullable': nullable(body, g._env()), 'kind': 'rule'}
    out = list(pre)
    ig_items = []
    if ignore == 'anon':
        ig_items.append({'k': 'ignore', 'expr': ['re', rng.choice([' +', '[ \\n]+'])]})
    elif ignore == 'named':
        pat = rng.choice([' +', '[ \\n]+'])
        ig_items.append({'k': 'rule', 'name': 'Sp', 'ignore': True, 'expr': ['re', pat]})
        g.table['Sp'] = {'rank': 1e9, 'nullable': False, 'kind': 'ignore', 'pattern': pat}
        if rng.random() < 0.3:
            ig_items.append({'k': 'rule', 'name': 'Cm', 'ignore': True, 'expr': ['re', '#[^\\n]*']})
            g.table['Cm'] = {'rank': 1e9, 'nullable': False, 'kind': 'ignore'}
    order = [items[i] for i in range(n)]
    # hooks
    for it in order:
        if rng.random() < hook_p:
            if it['k'] == 'rule':
                it['expr'] = g.add_hooks(it['expr'], 0.15)
                if rng.random() < 0.6:
                    it['expr'] = ['right', ['hook', g.new_tag()], it['expr']]
            else:
                for f in it['fields']:
                    f['expr'] = g.add_hooks(f['expr'], 0.15)
                if rng.random() < 0.5:
                    it['fields'].insert(0, {'name': 'h', 'expr': ['hook', g.new_tag()], 'mod': 'pass'})
    if not is_start(names[0]):
        out = order + out + ig_items     # no 'start' rule: the first item is the start
    elif rng.random() < 0.5:
        out = ig_items + out + order
    else:
        out = out + order + ig_items
    if g.helper:
        out = [helper_section('L0', rng.randrange(4))] + out
    g.lit_calls = collect_lit_calls(out)
    spec = {'named': bool(named), 'extends': None, 'items': out}
    return spec, g


def gen_child(rng, parent_gen, hook_p=0.4, ignore=None, allow_super=True, force=(), override_ignore_p=0.0,
              respell_start_p=0.0, force_body=None, force_items=(), helpers_p=0.0, echo_lit_call_p=0.0):
    """A module spec extending the module described by parent_gen.table.
    Returns (spec, gen) where gen.table is the effective table of the child."""
    g = Gen(rng, parent_gen.features)
    g.max_rep_lo = parent_gen.max_rep_lo
    g.lits = list(parent_gen.lits)
    g.res = list(parent_gen.res)
    g.tagn = parent_gen.tagn + 100
    g.table = {n: dict(i) for n, i in parent_gen.table.items()}
    if helpers_p and rng.random() < (0.8 if parent_gen.helper else helpers_p):
        # (a level whose parent has helpers mostly defines its own, differently)
        g.helper = True
        g.features = set(g.features) | {'apply', 'where'}
    g.depth = getattr(parent_gen, 'depth', 0) + 1
    cands = sorted(n for n, i in g.table.items() if i['kind'] in ('rule', 'class') and not is_start(n))
    eff = getattr(parent_gen, 'start_name', None)
    if eff is None or eff not in g.table:
        eff = 'start' if 'start' in g.table else None
    g.start_name = eff
    start_ok = eff is not None
    k = min(len(cands), rng.choice([0, 1, 1, 2, 3]))
    overridden = rng.sample(cands, k) if k else []
    # now and then a derived grammar that consists of ignore declarations ONLY (it inherits the start rule and everything else)
    ignore_only = ignore is not None and not force and not force_items and not force_body and rng.random() < 0.15
    if ignore_only:
        overridden = []
    for n in force:
        if n in g.table and n not in overridden:
            overridden.append(n)
    if start_ok and not ignore_only and rng.random() < 0.2:
        nm = eff
        if respell_start_p and rng.random() < respell_start_p:
            # the derived grammar spells its start rule differently (Start / START / start): by name it is
            # a NEW rule, but it is this grammar's start rule all the same
            alts = [v for v in ('start', 'Start', 'START') if v not in g.table]
            if alts:
                nm = rng.choice(alts)
                g.table[nm] = dict(g.table[eff])
                g.start_name = nm
        overridden.append(nm)
    n_new = 0 if ignore_only else rng.choice([0, 1, 1, 2])
    if start_ok and not force and ignore is None and g.start_name == 'start' == eff and rng.random() < 0.06:
        # a derived grammar that consists of a new start expression only
        overridden, n_new = ['start'], 0
    items = []
    new_names = []
    # new rules get ranks between existing ones
    for j in range(n_new):
        nm = 'N%d_%d' % (g.tagn, j)
        rank = rng.uniform(0.5, max(1.0, max((i['rank'] for i in g.table.values() if i['rank'] < 1e8), default=1.0)) + 1)
        new_names.append((nm, rank))
    parent_names = tuple(sorted(n for n, i in parent_gen.table.items() if i['kind'] in ('rule', 'class'))) if allow_super else ()
    for nm, rank in sorted(new_names, key=lambda x: -x[1]):
        # (a new rule may mention super.R as well, whether or not this grammar overrides R)
        body = g.expr(rank, True, True, 1, parent_names if rng.random() < 0.5 else ())
        g.table[nm] = {'rank': rank, 'nullable': nullable(body, g._env()), 'kind': 'rule'}
        items.append({'k': 'rule', 'name': nm, 'expr': body})
    for nm in sorted(overridden, key=lambda n: -g.table[n]['rank']):
        info = g.table[nm]
        info['parent_nullable'] = info['nullable']
        consume = not info['nullable']
        # super.<name> only for names the parent chain defines (not for rules new at this level)
        supers = tuple(sorted(n for n, i in parent_gen.table.items() if i['kind'] in ('rule', 'class'))) if allow_super else ()
        # bias: an override that mentions super.<itself>
        if force_body and nm in force_body:
            body = force_body[nm]
        elif allow_super and nm in parent_gen.table and rng.random() < 0.5:
            alt = g.expr(info['rank'], True, consume, 1, supers)
            body = ['alt', alt, ['super', nm]] if rng.random() < 0.7 else ['alt', ['super', nm], alt]
        else:
            body = g.expr(info['rank'], True, consume, 0, supers)
        if info['kind'] == 'class' and rng.random() < 0.6:
            fields = [{'name': 'g0', 'expr': body, 'mod': ''}]
            items.append({'k': 'class', 'name': nm, 'fields': fields})
        else:
            it = {'k': 'rule', 'name': nm, 'expr': body}
            if rng.random() < 0.5:
                it['override'] = True
            items.append(it)
            info['kind'] = 'rule'
        info['nullable'] = nullable(body, g._env())
    for it in force_items:
        items.append(dict(it))
    plc = list(getattr(parent_gen, 'lit_calls', ()))
    if echo_lit_call_p and plc and rng.random() < echo_lit_call_p:
        # the derived grammar passes the SAME literal to the same parameterised rule as some ancestor does
        tgt = [it for it in items if it['k'] == 'rule' and not it.get('params') and not it.get('ignore')]
        if tgt:
            it = rng.choice(tgt)
            echo = rng.choice(plc)
            it['expr'] = ['alt', [echo[0], echo[1], list(echo[2])], it['expr']] if rng.random() < 0.5 else ['alt', it['expr'], [echo[0], echo[1], list(echo[2])]]
    if not items and not ignore_only:
        nm = 'N%d_x' % g.tagn
        items.append({'k': 'rule', 'name': nm, 'expr': g._terminal(True)})
        g.table[nm] = {'rank': 50.0, 'nullable': False, 'kind': 'rule'}
    for it in items:
        if rng.random() < hook_p and it['k'] == 'rule':
            it['expr'] = g.add_hooks(it['expr'], 0.15)
            if rng.random() < 0.5:
                it['expr'] = ['right', ['hook', g.new_tag()], it['expr']]
    rng.shuffle(items)
    used = set()
    for n, i in parent_gen.table.items():
        if i['kind'] == 'ignore':
            used.add(i.get('pattern'))
    used |= set(getattr(parent_gen, 'anon_patterns', ()))
    # (patterns of different levels start with different characters, so that their order inside the skipper cannot matter)
    used_chars = {p[0] for p in used if p}
    fams = [f for f in (['~+', '~'], ['_+', '_'], ['#[^\\n]*']) if f[0][0] not in used_chars] or [['~+']]
    free = [rng.choice(f) for f in fams]
    g.anon_patterns = list(getattr(parent_gen, 'anon_patterns', ()))
    if ignore == 'anon':
        items.append({'k': 'ignore', 'expr': ['re', free[0]]})
        g.anon_patterns.append(free[0])
    elif ignore == 'named':
        nm = 'Sq%d' % g.tagn
        items.append({'k': 'rule', 'name': nm, 'ignore': True, 'expr': ['re', free[0]]})
        g.table[nm] = {'rank': 1e9, 'nullable': False, 'kind': 'ignore', 'pattern': free[0]}
    if ignore is not None and len(free) > 1 and rng.random() < 0.3:
        # a second ignore declaration at the same level (comments AND blanks)
        items.append({'k': 'ignore', 'expr': ['re', free[1]]})
        g.anon_patterns.append(free[1])
    # now and then: override a named ignore rule of an ancestor, with or without the modifier
    # (it stays the rule that the inherited ignore machinery refers to, late-bound)
    named_ig = sorted(n for n, i in parent_gen.table.items() if i['kind'] == 'ignore')
    if named_ig and override_ignore_p and rng.random() < override_ignore_p:
        nm = rng.choice(named_ig)
        pool = [p for p in ('~+', '_+', ' +', '[ \\n]+') if p != parent_gen.table[nm].get('pattern')]
        pat = rng.choice(pool)
        it = {'k': 'rule', 'name': nm, 'expr': ['re', pat], 'ignore_override': True}
        if rng.random() < 0.5:
            it['ignore'] = True
        if rng.random() < 0.6:
            it['override'] = True
        items.append(it)
        g.table[nm] = dict(g.table[nm], pattern=pat)
    if g.helper:
        items.insert(0, helper_section('L%d' % g.depth, rng.randrange(4)))
    g.lit_calls = plc + collect_lit_calls(items)
    spec = {'named': True, 'extends': True, 'items': items}
    if (len(items) == 1 and items[0]['k'] == 'rule' and items[0]['name'] == 'start' and not items[0].get('ignore')
            and items[0]['expr'][0] not in ('optable', 'py', 'hook') and rng.random() < 0.7):
        spec['single_expr'] = True
        items[0].pop('override', None)
    return spec, g


# overrides of the two-parameter rule Cn(p, q) of the kind-matrix grammars
CN_OVERRIDES = [
    {'k': 'rule', 'name': 'Cn', 'params': ['q', 'p'], 'expr': ['seq', ['repn', ['lit', 'd'], 'q'], ['repn', ['lit', 'l'], 'p']]},
    {'k': 'rule', 'name': 'Cn', 'params': ['q', 'p'], 'expr': ['seq', ['repn', ['lit', 'l'], 'p'], ['lit', '-'], ['repn', ['lit', 'd'], 'q']], 'override': True},
    {'k': 'rule', 'name': 'Cn', 'params': ['p', 'q'], 'expr': ['seq', ['repn', ['lit', 'd'], 'q'], ['repn', ['lit', 'l'], 'p']], 'override': True},
]
NULLABLE_X_BASES = [['star', ['lit', 'x']], ['opt', ['lit', 'x']], ['sep', ['lit', 'x'], ['lit', ',']], ['re', 'x*'],
                    ['skip', ['lit', 'x']], ['rep', ['lit', 'x'], 0, 2]]
FAILING_X_OVERRIDES = [['lit', 'x'], ['plus', ['lit', 'x']], ['where', ['super', 'X'], 'lambda v: bool(v)'],
                       ['seq', ['lit', 'x'], ['opt', ['lit', 'x']]], ['right', ['expect', ['lit', 'x']], ['super', 'X']]]


def kind_matrix_root(rng, ignore=None, nullable_x=False):
    """A root grammar in which ONE rule X is referred to from every kind of expression, each
    reachable through its own tag: `start = List(("1" >> K1) | ("2" >> K2) | ...)`.  A derived
    grammar that overrides X must see its definition in every one of these contexts (C13: late
    binding must not depend on the kind of the referring expression).

    nullable_x: the base definition of X CANNOT FAIL (`"x"*`, `Opt("x")`, ...) and the derived grammars
    override it with definitions that can: whatever the generator concludes statically about the base
    definition (cannot fail, cannot consume partially) must not be baked into the inherited rules that
    refer to it.  (No context repeats X in this variant: repeating something that may be empty is not
    a well-formed PEG.)"""
    X = ['ref', 'X']
    if nullable_x:
        ctxs = [
            X,
            ['seq', X, ['lit', '!']],
            ['alt', ['lit', '?'], X],
            ['alt', X, ['lit', '?']],
            ['alt', ['seq', X, ['lit', '!']], ['lit', '?'], ['seq', X, ['lit', ',']]],
            ['opt', X],
            ['right', ['lit', '<'], X],
            ['left', X, ['lit', '>']],
            ['right', X, ['lit', 'e']],
            ['seq', ['expect', X], X, ['lit', '!']],
            ['seq', ['expectnot', X], ['re', '[a-c]']],
            ['apply', X, 'lambda v: [v]'],
            ['where', X, 'lambda v: True'],
            ['longest', X, ['lit', 'n']],
            ['longest', ['lit', 'n'], ['seq', X, ['lit', '!']]],
            ['let', 'v', X, ['seq', ['py', 'v'], X, ['lit', '!']]],
            ['call', 'Tw', X],
            ['call', 'Pt', X],
            ['seq', X, X, ['lit', '!']],
            ['seq', ['opt', ['lit', 'q']], ['alt', ['seq', X, ['lit', '!']], ['seq', X, ['lit', '?']], X]],
            ['seq', ['star', ['lit', 'i']], X, ['lit', 'i']],
            ['sep', ['seq', ['lit', 'o'], X], ['lit', ',']],
            ['optable', ['seq', ['lit', 'o'], X], [['left', [['lit', '+']]], ['postfix', [['lit', '!']]]]],
            ['seq', ['alt', X, ['lit', 'z']], ['lit', '!']],
        ]
    else:
        ctxs = [
            X,
            ['seq', X, ['lit', '!']],
            ['alt', ['lit', '?'], X],
            ['opt', X],
            ['star', X],
            ['plus', X],
            ['rep', X, 1, 2],
            ['sep', X, ['lit', ',']],
            ['sept', X, ['lit', ',']],
            ['seq', ['lit', 'i'], ['star', ['seq', X, ['lit', 'i']]]],
            ['right', ['lit', '<'], X],
            ['left', X, ['lit', '>']],
            ['seq', ['expect', X], X],
            ['seq', ['expectnot', X], ['re', '[a-c]']],
            ['apply', X, 'lambda v: [v]'],
            ['where', X, 'lambda v: True'],
            ['longest', X, ['lit', 'n']],
            ['longest', ['lit', 'n'], ['seq', X, ['lit', '!']]],
            ['right', ['skip', X], ['lit', 'e']],
            ['let', 'v', X, ['seq', ['py', 'v'], X]],
            ['call', 'Tw', X],
            ['call', 'Pt', X],
            ['optable', X, [['left', [['lit', '+']]], ['prefix', [['lit', '!']]]]],
            ['optable', ['ref', 'O'], [['left', [X]]]],
            ['optable', ['ref', 'O'], [['mixfix', [['left', ['right', ['lit', '('], X], ['lit', ')']]]], ['left', [['lit', '+']]]]],
            ['sep', ['ref', 'O'], X],
            ['seq', ['opt', ['lit', 'q']], ['alt', ['seq', X, ['lit', '!']], ['seq', X, ['lit', '?']], X]],
        ]
    # a parameterised rule with two VALUE parameters, called by keyword, by position and with the keywords in the
    # other order: a derived grammar may override it with the parameters listed in another order
    ctxs += [
        ['kwcall', 'Cn', [['p', ['num', 2]], ['q', ['num', 1]]]],
        ['call', 'Cn', ['num', 1], ['num', 2]],
        ['seq', ['kwcall', 'Cn', [['q', ['num', 2]], ['p', ['num', 1]]]], ['lit', '!']],
    ]
    g = Gen(rng, features=['classes', 'sep', 'lookahead', 'apply', 'where', 'longest', 'template', 'optable', 'let', 'skip', 'rep'])
    g.max_rep_lo = 1
    g.lits = ['a', 'b', 'c', '!', '?', ',']
    g.res = ['[ab]+']
    tags = '0123456789ABCDEFGHIJKLMNOPQRSTUVWXYZ'
    items = [{'k': 'rule', 'name': 'Tw', 'params': ['x'], 'expr': ['left', ['right', ['lit', '('], ['ref', 'x']], ['lit', ')']]},
             {'k': 'rule', 'name': 'Pt', 'params': ['x'], 'expr': ['left', ['ref', 'x'], ['opt', ['lit', '?']]]},
             {'k': 'rule', 'name': 'Cn', 'params': ['p', 'q'], 'expr': ['seq', ['repn', ['lit', 'l'], 'p'], ['repn', ['lit', 'd'], 'q']]}]
    g.table['Tw'] = {'rank': -1.0, 'nullable': False, 'kind': 'template'}
    g.table['Pt'] = {'rank': -1.0, 'nullable': True, 'kind': 'template', 'arg_leftmost': True}
    g.table['Cn'] = {'rank': -1.0, 'nullable': True, 'kind': 'template'}
    alts = []
    n = len(ctxs)
    g.table['X'] = {'rank': float(n + 5), 'nullable': bool(nullable_x), 'kind': 'rule'}
    g.table['O'] = {'rank': float(n + 4), 'nullable': False, 'kind': 'rule'}
    rules = []
    for i, c in enumerate(ctxs):
        name = 'K%d' % i
        alts.append(['right', ['lit', tags[i] + ':'], ['ref', name]])
        if i % 5 == 4:
            rules.append({'k': 'class', 'name': name, 'fields': [{'name': 'f', 'expr': c, 'mod': ''}]})
            g.table[name] = {'rank': float(i + 1), 'nullable': nullable(c, g._env()), 'kind': 'class'}
        else:
            rules.append({'k': 'rule', 'name': name, 'expr': c})
            g.table[name] = {'rank': float(i + 1), 'nullable': nullable(c, g._env()), 'kind': 'rule'}
    items.append({'k': 'rule', 'name': 'start', 'expr': ['star', ['left', ['alt'] + alts, ['lit', ';']]]})
    g.table['start'] = {'rank': 0.0, 'nullable': True, 'kind': 'rule'}
    items += rules
    # (an operator table over a bare literal operand keeps a dangling operator: C02's business)
    items.append({'k': 'rule', 'name': 'O', 'expr': ['lit', 'o']})
    xbody = rng.choice(NULLABLE_X_BASES) if nullable_x else ['lit', 'x']
    if rng.random() < 0.5:
        items.append({'k': 'class', 'name': 'X', 'fields': [{'name': 'v', 'expr': xbody, 'mod': ''}]})
        g.table['X']['kind'] = 'class'
    else:
        items.append({'k': 'rule', 'name': 'X', 'expr': xbody})
    g.nullable_x = bool(nullable_x)
    if ignore is None:
        ignore = rng.choice([None, None, 'anon', 'named'])
    if ignore == 'anon':
        items.append({'k': 'ignore', 'expr': ['re', ' +']})
    elif ignore == 'named':
        items.append({'k': 'rule', 'name': 'Sp', 'ignore': True, 'expr': ['re', ' +']})
        g.table['Sp'] = {'rank': 1e9, 'nullable': False, 'kind': 'ignore'}
    return {'named': True, 'extends': None, 'items': items}, g


def tour_root(rng, named):
    """A fixed, feature-rich grammar in the style of the repository's own examples (statements,
    calls, operator table, templates taking literals and rules as arguments, keyword predicate,
    classes, separated lists with trailer, ignore).  Every text of its family passes through most
    of the generated runtime helpers, so that several clients of one run meet in the same code.
    Returns (spec, gen, fixed texts)."""
    hook = lambda tag, e: (['right', ['hook', tag], e] if rng.random() < 0.6 else e)
    items = [
        {'k': 'rule', 'name': 'Tw', 'params': ['x'], 'expr': ['left', ['right', ['lit', '('], ['ref', 'x']], ['lit', ')']]},
        {'k': 'rule', 'name': 'Ls', 'params': ['x', 's'], 'expr': ['sep', ['ref', 'x'], ['ref', 's']]},
        {'k': 'rule', 'name': 'Kw', 'params': ['w'], 'expr': ['where', ['ref', 'Name'], 'lambda v: v == w']},
        {'k': 'rule', 'name': 'start', 'expr': ['sept', ['ref', 'Stmt'], ['lit', ';']]},
        {'k': 'rule', 'name': 'Stmt', 'expr': hook('h1', ['alt', ['ref', 'Assign'], ['ref', 'Call'],
                                                           ['seq', ['ref', 'Ex'], ['py', 'envprobe()']]])},
        {'k': 'class', 'name': 'Call', 'fields': [
            {'name': 'name', 'expr': ['ref', 'Name'], 'mod': ''},
            {'name': 'args', 'expr': ['call', 'Tw', ['call', 'Ls', ['ref', 'Ex'], ['lit', ',']]], 'mod': ''}]},
        {'k': 'class', 'name': 'Assign', 'fields': [
            {'name': 'kw', 'expr': ['call', 'Kw', ['lit', 'let']], 'mod': 'pass'},
            {'name': 'target', 'expr': ['left', ['ref', 'Name'], ['lit', '=']], 'mod': ''},
            {'name': 'value', 'expr': ['ref', 'Ex'], 'mod': ''}]},
        {'k': 'rule', 'name': 'Ex', 'expr': ['optable', ['ref', 'Atom'], [
            ['mixfix', [['left', ['right', ['lit', '('], ['ref', 'Ex']], ['lit', ')']]]],
            ['prefix', [['lit', '-']]], ['left', [['lit', '*']]], ['left', [['lit', '+']]]]]},
        {'k': 'rule', 'name': 'Atom', 'expr': hook('h2', ['alt', ['hookv', 'h3', ['ref', 'Num']], ['ref', 'Call'], ['ref', 'Name'], ['ref', 'StrL'], ['ref', 'Lst']])},
        # a second call site passing the same literal "," (and "(" via Tw) as an argument
        {'k': 'rule', 'name': 'Lst', 'expr': ['left', ['right', ['lit', '['], ['call', 'Ls', ['ref', 'Atom'], ['lit', ',']]], ['lit', ']']]},
        {'k': 'rule', 'name': 'Num', 'expr': ['apply', ['re', '[0-9]+'], 'int']},
        {'k': 'rule', 'name': 'Name', 'expr': hook('h4', ['re', '[a-z]+'])},
        {'k': 'rule', 'name': 'StrL', 'expr': ['re', '"[^"]*"']},
    ]
    ig = rng.choice(['anon', 'named', 'anon-nl'])
    if ig == 'named':
        items.append({'k': 'rule', 'name': 'Sp', 'ignore': True, 'expr': ['re', '[ \\n]+']})
    else:
        items.append({'k': 'ignore', 'expr': ['re', ' +' if ig == 'anon' else '[ \\n]+']})
    g = Gen(rng, features=['classes', 'sep', 'apply', 'where', 'template', 'optable', 'regex', 'lookahead', 'longest'])
    g.lits = ['(', ')', ',', ';', '+', '=', '[', ']']
    g.res = ['[a-z]+', '[0-9]+']
    order = ['start', 'Stmt', 'Assign', 'Call', 'Ex', 'Atom', 'Lst', 'Num', 'Name', 'StrL']
    for n in ('Tw', 'Ls', 'Kw'):
        g.table[n] = {'rank': -1.0, 'nullable': n == 'Ls', 'kind': 'template'}
    kinds = {it['name']: it['k'] for it in items if it['k'] in ('rule', 'class')}
    for i, n in enumerate(order):
        g.table[n] = {'rank': float(i), 'nullable': n == 'start', 'kind': kinds[n]}
    if ig == 'named':
        g.table['Sp'] = {'rank': 1e9, 'nullable': False, 'kind': 'ignore', 'pattern': '[ \\n]+'}
    texts = ['let a = 1 + 2; f(a, b); -a * (b + 1)', 'f(1, g(2, "x")); let b = f()', 'a + b * c;', 'let x = (1 + 2',
             'f(a,, b)', 'let let = 1; f(', '1 +\n 2; g(x)\n + "s"', 'f(a)(b)', '"unterminated', 'let a = -(-1) * 2;;']
    return {'named': bool(named), 'extends': None, 'items': items}, g, texts


def binary_root(rng, named):
    """A binary grammar (byte literals, b"..." strings, binary regexes) in the style of the
    repository's byte-string tests; its inputs are bytes.  Returns (spec, gen, texts as latin-1 str)."""
    hook = lambda tag, e: (['right', ['hook', tag], e] if rng.random() < 0.7 else e)
    items = [
        {'k': 'rule', 'name': 'start', 'expr': hook('h1', ['star', ['ref', 'Doc']])},
        {'k': 'class', 'name': 'Doc', 'fields': [
            {'name': 'h', 'expr': ['hook', 'h2'], 'mod': 'pass'},
            {'name': 'version', 'expr': ['byte', 0x65], 'mod': ''},
            {'name': 'open', 'expr': ['alt', ['byte', 0xFF], ['byte', 0xFE]], 'mod': ''},
            {'name': 'body', 'expr': ['ref', 'Body'], 'mod': ''},
            {'name': 'close', 'expr': ['byte', 0x00], 'mod': ''}]},
        {'k': 'rule', 'name': 'Body', 'expr': hook('h3', ['star', ['alt', ['left', ['ref', 'Chunk'], ['byte', 0x2C]],
                                                                 ['left', ['ref', 'Chunk'], ['byte', 0x3B]], ['ref', 'Chunk']]])},
        {'k': 'rule', 'name': 'Chunk', 'expr': hook('h4', ['alt', ['right', ['byte', 0x11], ['ref', 'Pair']],
                                                           ['seq', ['expect', ['ref', 'Pair']], ['ref', 'Pair']],
                                                           ['hookv', 'h5', ['bre', '[\\x01-\\x0F]']]])},
        {'k': 'class', 'name': 'Pair', 'fields': [
            {'name': 'a', 'expr': ['blit', 'ab'], 'mod': ''},
            {'name': 'b', 'expr': ['opt', ['bre', '[\\x20-\\x7E]+']], 'mod': ''}]},
    ]
    g = Gen(rng, features=[])
    for i, it in enumerate(items):
        g.table[it['name']] = {'rank': float(i), 'nullable': it['name'] in ('start', 'Body'), 'kind': it['k']}
    def doc(body, close='\x00', open_='\xff'):
        return 'e' + open_ + body + close
    texts = [doc('abxy,\x01;\x11ab'), doc('') + doc('ab zz'), doc('\x02\x03ab', close=''), doc('abq', open_='\xfe') + 'e',
             doc('\x11ab,\x11ab;\x11abw\x05'), 'e\xff', doc('abab,abab;ab' * 3), doc('\x01' * 6 + 'ab~')]
    return {'named': bool(named), 'extends': None, 'items': items, 'binary': True}, g, texts


def gen_variant(rng, spec_, gen, parent_gen=None, toggle_ignore=True):
    """The same module edited: same rule names, ranks and kinds, one or two bodies regenerated,
    the ignore declaration possibly toggled ("edit the base, re-run everything").
    Returns (spec, gen)."""
    import copy
    s = copy.deepcopy(spec_)
    g = Gen(rng, gen.features)
    g.max_rep_lo = gen.max_rep_lo
    g.lits = list(gen.lits)
    g.res = list(gen.res)
    g.tagn = gen.tagn + 1000
    g.table = {n: dict(i) for n, i in gen.table.items()}
    g.anon_patterns = list(getattr(gen, 'anon_patterns', ()))
    supers = ()
    if parent_gen is not None:
        supers = tuple(sorted(n for n, i in parent_gen.table.items() if i['kind'] in ('rule', 'class')))
    rules = [it for it in s['items'] if it['k'] == 'rule' and not it.get('ignore') and not it.get('params')
             and not it.get('ignore_override')]
    for it in rng.sample(rules, min(len(rules), rng.choice([1, 1, 2]))):
        info = g.table[it['name']]
        consume = not info['nullable']
        it['expr'] = g.expr(info['rank'], True, consume, 0, supers)
        info['nullable'] = nullable(it['expr'], g._env())
    if toggle_ignore and parent_gen is None:
        decl = [it for it in s['items'] if it['k'] == 'ignore' or it.get('ignore')]
        x = rng.random()
        if decl and x < 0.4:
            s['items'] = [it for it in s['items'] if it not in decl]
            for it in decl:
                if it.get('name'):
                    g.table.pop(it['name'], None)
        elif decl and x < 0.6:
            for it in decl:
                if it['expr'][1] in (' +', '[ \\n]+'):
                    it['expr'] = ['re', ' +' if it['expr'][1] != ' +' else '[ \\n]+']
        elif not decl and x < 0.5:
            s['items'].append({'k': 'ignore', 'expr': ['re', rng.choice([' +', '[ \\n]+'])]})
    return s, g


# --------------------------------------------------------------------------------- sampling texts

class Sampler:
    """Derives token lists from an effective rule table (name -> item)."""

    def __init__(self, rng, rules, super_rules=None, maxdepth=6):
        self.rng = rng
        self.rules = rules              # name -> item (most-derived)
        self.super_rules = super_rules or {}
        self.maxdepth = maxdepth
        self.budget = 4000           # expression visits per sampler: amplified grammars explode otherwise
        self._size = {}
        self.long_n = None           # when set: the first repetition met near the top gets this many rounds
        self._shallow = 0

    def _sz(self, e):
        k = id(e)
        v = self._size.get(k)
        if v is None:
            v = self._size[k] = len(json.dumps(e))
        return v

    def item(self, it, depth, bind=None):
        if it['k'] == 'rule':
            return self.expr(it['expr'], depth, bind)
        out = []
        for f in it['fields']:
            out += self.expr(f['expr'], depth, bind)
        return out

    def expr(self, e, depth, bind=None):
        r = self.rng
        k = e[0]
        self.budget -= 1
        deep = depth >= self.maxdepth or self.budget < 0
        if self.budget < -2000:
            return []
        if k == 'lit':
            return [e[1]]
        if k == 're':
            s = RE_TABLE.get(e[1], (True, ['']))[1]
            return [r.choice(s)]
        if k == 'liti':
            return [''.join(c.upper() if r.random() < 0.5 else c for c in e[1])]
        if k == 'byte':
            return [chr(e[1])]
        if k == 'blit':
            return [e[1]]
        if k == 'bre':
            return [r.choice(BRE_TABLE.get(e[1], (True, ['']))[1])]
        if k == 'ref':
            if bind and e[1] in bind:
                return self.expr(bind[e[1]], depth + 1, None)
            it = self.rules.get(e[1])
            if it is None or depth > self.maxdepth + 4:
                return []
            return self.item(it, depth + 1)
        if k == 'super':
            it = self.super_rules.get(e[1]) or self.rules.get(e[1])
            if it is None or depth > self.maxdepth + 4:
                return []
            return self.item(it, depth + 1)
        if k == 'seq':
            out = []
            for x in e[1:]:
                out += self.expr(x, depth, bind)
            return out
        if k in ('alt', 'longest'):
            opts = e[1:]
            if deep:
                return self.expr(min(opts, key=self._sz), depth + 1, bind)
            return self.expr(r.choice(opts), depth + 1, bind)
        if k == 'opt':
            return self.expr(e[1], depth + 1, bind) if (not deep and r.random() < 0.6) else []
        if k in ('star', 'skip', 'plus'):
            if self.long_n and depth <= 4:
                n, self.long_n = self.long_n, None
                out = []
                for _ in range(n):
                    self.budget = 60            # every round small
                    out += self.expr(e[1], self.maxdepth - 1, bind)
                self.budget = 200
                return out
            lo = 1 if k == 'plus' else 0
            n = lo if deep else r.choice([lo, 1, 1, 2, 3])
            out = []
            for _ in range(n):
                out += self.expr(e[1], depth + 1, bind)
            return out
        if k == 'rep':
            lo, hi = int(e[2]), int(e[3])
            n = lo if deep else r.randint(lo, max(lo, hi))
            out = []
            for _ in range(n):
                out += self.expr(e[1], depth + 1, bind)
            return out
        if k in ('sep', 'sept'):
            n = 0 if deep else r.choice([0, 1, 2, 3])
            if self.long_n and depth <= 4:
                n, self.long_n = self.long_n, None
                out = []
                for i in range(n):
                    self.budget = 60
                    if i:
                        out += self.expr(e[2], self.maxdepth - 1, bind)
                    out += self.expr(e[1], self.maxdepth - 1, bind)
                self.budget = 200
                return out
            out = []
            for i in range(n):
                if i:
                    out += self.expr(e[2], depth + 1, bind)
                out += self.expr(e[1], depth + 1, bind)
            if k == 'sept' and n and r.random() < 0.3:
                out += self.expr(e[2], depth + 1, bind)
            return out
        if k in ('left', 'right'):
            return self.expr(e[1], depth, bind) + self.expr(e[2], depth, bind)
        if k in ('expect', 'expectnot', 'py', 'hook'):
            return []
        if k in ('apply', 'where'):
            return self.expr(e[1], depth, bind)
        if k in ('hookv', 'hookp'):
            return self.expr(e[2], depth, bind)
        if k == 'let':
            return self.expr(e[2], depth, bind) + self.expr(e[3], depth, bind)
        if k == 'call':
            it = self.rules.get(e[1])
            if it is None or depth > self.maxdepth + 4:
                return []
            b = dict(zip(it.get('params') or [], e[2:]))
            return self.expr(it['expr'], depth + 1, b)
        if k == 'kwcall':
            it = self.rules.get(e[1])
            if it is None or depth > self.maxdepth + 4:
                return []
            return self.expr(it['expr'], depth + 1, {kw: v for kw, v in e[2]})
        if k == 'num':
            return []
        if k == 'repn':
            v = (bind or {}).get(e[2])
            n = v[1] if (v and v[0] == 'num') else 1
            out = []
            for _ in range(n):
                out += self.expr(e[1], depth + 1, bind)
            return out
        if k == 'optable':
            return self._optable(e, depth, bind)
        raise ValueError(k)

    def _optable(self, e, depth, bind):
        r = self.rng
        rows = e[2]
        pre = [o for a, ops in rows if a == 'prefix' for o in ops]
        post = [o for a, ops in rows if a == 'postfix' for o in ops]
        inf = [o for a, ops in rows if a in ('left', 'right', 'infix') for o in ops]
        mix = [o for a, ops in rows if a == 'mixfix' for o in ops]

        def operand(d):
            out = []
            if pre and r.random() < 0.3:
                out += self.expr(r.choice(pre), d + 1, bind)
            if mix and d < self.maxdepth and r.random() < 0.25:
                out += self.expr(r.choice(mix), d + 2, bind)
            else:
                out += self.expr(e[1], d + 1, bind)
            if post and r.random() < 0.3:
                out += self.expr(r.choice(post), d + 1, bind)
            return out

        out = operand(depth)
        n = 0 if depth >= self.maxdepth else r.choice([0, 1, 2, 3])
        for _ in range(n):
            if not inf:
                break
            out += self.expr(r.choice(inf), depth + 1, bind)
            out += operand(depth + 1)
        return out


def join_tokens(rng, toks, gaps):
    """gaps: list of ignorable sample strings allowed between tokens (empty list: none)."""
    if not gaps:
        return ''.join(toks)
    out = []
    if rng.random() < 0.3:
        out.append(rng.choice(gaps))
    for i, t in enumerate(toks):
        out.append(t)
        if rng.random() < 0.6:
            out.append(rng.choice(gaps))
            if rng.random() < 0.3:
                out.append(rng.choice(gaps))      # two ignorable tokens in a row (a comment, then a line break)
    return ''.join(out)


def mutate_text(rng, text, alphabet):
    """A near miss: one edit."""
    if not text:
        return rng.choice(alphabet)
    i = rng.randrange(len(text))
    op = rng.choice(['sub', 'del', 'ins', 'trunc'])
    if op == 'sub':
        return text[:i] + rng.choice(alphabet) + text[i + 1:]
    if op == 'del':
        return text[:i] + text[i + 1:]
    if op == 'ins':
        return text[:i] + rng.choice(alphabet) + text[i:]
    return text[:i]


def collide(rng, text, alphabet, gaps):
    """Same length, common prefix, differing only after some position k -- so that a stale
    (function, position) entry or a stale line map from another call gives a different answer."""
    if len(text) < 2:
        return text + rng.choice(alphabet)
    k = rng.randrange(1, len(text))
    tail = list(text[k:])
    n = rng.randint(1, max(1, len(tail) // 2))
    for _ in range(n):
        j = rng.randrange(len(tail))
        c = tail[j]
        if c in ' \n' and gaps:
            tail[j] = '\n' if c == ' ' else ' '
        else:
            tail[j] = rng.choice(alphabet)
    return text[:k] + ''.join(tail)

"""Universes: sets of grammar modules in the real sys.modules registry, the user-code seam
(hook dispatch), operations and their execution, and isolated reference executions.

Real: Grammar(), the generated modules, sys.modules/importlib.  Stub: the users (scripts).
"""
import gc
import json
import os
import sys
import threading
import types
from contextlib import contextmanager

from . import fp as fpm
from . import locks
from . import mon
from . import clock

locks.install()
clock.install()
# sourcer itself is imported as code of the system under test: a lock that its modules (the shipped, generated
# meta-parser included) create at import time is a simulated lock
with locks.sut():
    import sourcer                  # noqa: F401,E402
    import sourcer.parser           # noqa: F401,E402

PREFIX = 'vx'                 # every grammar name used by the simulator starts with this
REF_BUDGET = 150_000          # steps a reference operation may take before it is 'nontermination'
SIM_BUDGET_CAP = 2_000_000
HARD_CAP = 4_000_000           # total steps of one top-level operation including everything nested in it


class UserAbort(Exception):
    """What scripted user code raises from an inline-Python callback."""

    def __init__(self, tag, pos):
        Exception.__init__(self, '%s@%s' % (tag, pos))
        self.tag = tag
        self.pos = pos


class UserAbortBase(BaseException):
    """User code may also raise something that is not an `Exception` (KeyboardInterrupt, SystemExit,
    GeneratorExit, a library's own BaseException subclass): the call is abandoned all the same."""

    def __init__(self, tag, pos):
        BaseException.__init__(self, '%s@%s' % (tag, pos))
        self.tag = tag
        self.pos = pos


# ------------------------------------------------------------------------------- registry

def _ours(name):
    return name.startswith(PREFIX)


def purge_registry():
    for n in [n for n in sys.modules if _ours(n)]:
        del sys.modules[n]


def registry_snapshot():
    return {n: id(m) for n, m in sys.modules.items() if _ours(n)}


@contextmanager
def isolated_registry():
    """Run the body with none of our grammar names installed; restore afterwards."""
    saved = {n: m for n, m in sys.modules.items() if _ours(n)}
    for n in saved:
        del sys.modules[n]
    try:
        yield
    finally:
        purge_registry()
        sys.modules.update(saved)


# ------------------------------------------------------------------------------- user-code seam

class Frame:
    __slots__ = ('script', 'path', 'fired', 'nested', 'rec', 'kind')

    def __init__(self, script, path, kind='parse'):
        self.kind = kind
        self.script = script or {}
        self.path = path
        self.fired = []        # [tag, pos, kind] in firing order
        self.nested = []       # (path, op, outcome) of nested operations
        self.rec = None        # engine-specific per-call recording (packrat)


_CTX = {}                      # thread ident -> ExecCtx


class ExecCtx:
    """Per-thread execution context: who is calling, with which script."""

    def __init__(self, env, task=None):
        self.env = env
        self.task = task
        self.stack = []
        self.hard = float('inf')
        self.outer_text = None


def _ctx():
    return _CTX.get(threading.get_ident())


def _dispatch(kind, tag, pos, v, text=None):
    c = _ctx()
    if c is None or not c.stack:
        # a call made outside any scripted operation (never happens in engines)
        return v if kind == 'v' else (True if kind == 'p' else None)
    fr = c.stack[-1]
    fr.fired.append([tag, pos, kind])
    env = c.env
    if env.on_hook is not None:
        env.on_hook(c, fr, kind, tag, pos)
    act = fr.script.get('%s@%s' % (tag, pos))
    if act is not None:
        if act == 'abort':
            env.count('user_abort')
            raise UserAbort(tag, pos)
        if act == 'abort_base':
            env.count('user_abort')
            env.count('user_abort_base_exception')
            raise UserAbortBase(tag, pos)
        if act == 'gc':
            # a collection in the middle of a call (finalises generators of abandoned calls)
            _collect(env)
            env.count('gc_inside_callback')
        if isinstance(act, dict) and 'nest' in act:
            if env.allow_nest and len(c.stack) < 3:
                env.count('reenter')
                sub = act['nest']
                if fr.kind == 'compile':
                    env.count('construction_calls_back:nested_' + sub['op'])
                elif sub['op'] == 'compile':
                    env.count('parse_calls_back:nested_construction')
                saved_outer, c.outer_text = c.outer_text, text      # what the callback was handed as `_text`
                try:
                    out = run_op(env, c, sub, fr.path + ('%s@%s' % (tag, pos),))
                finally:
                    c.outer_text = saved_outer
                fr.nested.append(out)
        if act == 'false' and kind == 'p':
            return False
    pol = env.policy
    if pol is not None and hasattr(pol, 'request'):
        pol.request()
    if kind == 'v':
        return v
    if kind == 'p':
        return True
    return None


def hook(tag, text, pos):
    return _dispatch('h', tag, pos, None, text)


def hookv(tag, text, pos, v):
    return _dispatch('v', tag, pos, v, text)


def hookp(tag, text, pos, v):
    return _dispatch('p', tag, pos, v, text)


def envprobe():
    """What user code can read of the interpreter-wide environment (inline Python is ordinary
    Python: a callback may recurse, so the recursion limit is part of what decides its outcome)."""
    return ['env', sys.getrecursionlimit(), round(sys.getswitchinterval(), 6), sys.gettrace() is None,
            sys.getprofile() is None, threading.stack_size()]


_PRISTINE_ENV = (sys.getrecursionlimit(), sys.getswitchinterval(), threading.stack_size())


@contextmanager
def pristine_interpreter_settings():
    """Reference executions ("the same operation executed alone") see the interpreter-wide settings of
    a process in which nothing else has run, whatever the simulated run left behind."""
    now = (sys.getrecursionlimit(), sys.getswitchinterval(), threading.stack_size())
    if now == _PRISTINE_ENV:
        yield
        return
    sys.setrecursionlimit(_PRISTINE_ENV[0])
    sys.setswitchinterval(_PRISTINE_ENV[1])
    try:
        threading.stack_size(_PRISTINE_ENV[2])
    except Exception:
        pass
    try:
        yield
    finally:
        sys.setrecursionlimit(max(now[0], 50))
        sys.setswitchinterval(now[1])
        try:
            threading.stack_size(now[2])
        except Exception:
            pass


def _collect(env):
    sim = env.sim
    cur = None
    if sim is not None:
        cur, sim.cur = sim.cur, None      # mute the step clock: finalisers are not client steps
    try:
        if env.kept:
            # the exceptions of abandoned calls are dropped now: their suspended generators are finalised here
            env.count('abandoned_calls_finalised_late', len(env.kept))
            del env.kept[:]
        gc.collect()
    finally:
        if sim is not None:
            sim.cur = cur
    env.count('gc')


def install_builtin_seam():
    """Python sections of a grammar run while Grammar() executes the generated module, i.e. before the
    harness can arm the module: they reach the user-code seam through a builtin name."""
    import builtins
    builtins.vx_hook = hook


install_builtin_seam()


def arm(module):
    module.hook = hook
    module.hookv = hookv
    module.hookp = hookp
    module.envprobe = envprobe


# ------------------------------------------------------------------------------- environment

class Handle:
    __slots__ = ('id', 'module', 'chain', 'name', 'ok')

    def __init__(self, id, module, chain, name):
        self.id = id
        self.module = module
        self.chain = chain       # tuple of descriptions, root first, as bound at creation
        self.name = name
        self.ok = module is not None


class Env:
    """The modules an operation can touch, plus counters and seams."""

    def __init__(self, mode, policy=None, allow_nest=True, watch_new=True):
        self.mode = mode                 # 'sim' | 'ref'
        self.handles = {}
        self.policy = policy
        self.allow_nest = allow_nest
        self.on_hook = None
        self.on_call_end = None
        self.counters = {}
        self.watch_new = watch_new
        self.sim = None
        self.last_raw = {}               # task id -> raw result object of its last parse (for scramble)
        self.last_mod = {}               # task id -> module of its last parse (for postprocess)
        self.last_text = {}              # task id -> text object of its last parse (when the next call re-uses it)
        self.shared_texts = {}           # value -> the one text object all clients pass for it
        self.instr = False               # instruction-level pre-emption points enabled in this run
        self.active_compiles = 0         # Grammar() calls in progress (all clients, nested ones included)
        self.kept = []                   # exceptions of abandoned calls that their callers hold on to
        self.built_sources = {}          # mod id -> source generated by a construction of this run (include_source)

    def count(self, k, n=1):
        self.counters[k] = self.counters.get(k, 0) + n


def compile_desc(desc, watch=True, include_source=False):
    """The real thing: sourcer.Grammar on a description; arms the user-code seam."""
    from sourcer import Grammar
    with locks.sut():
        m = Grammar(desc, include_source=True) if include_source else Grammar(desc)
    if watch:
        mon.watch(generated_codes(m))
    arm(m)
    return m


def builtin_module(which):
    """A module of the repository itself used as system under test: 'meta' is the shipped,
    itself-generated parser of the grammar language (sourcer/parser.py, with its own copy of _run)."""
    if which == 'meta':
        import sourcer.parser as P
        mon.watch(mon.codes_of_module(P))
        return P
    raise ValueError(which)


_META_CODE = [None]


def fresh_builtin(which):
    """A pristine instance of a repository module for reference executions: the source file is
    compiled once and exec'ed into a new module object each time."""
    if which != 'meta':
        raise ValueError(which)
    import sourcer.parser as P
    if _META_CODE[0] is None:
        with open(P.__file__) as f:
            src = f.read()
        code = compile(src, P.__file__, 'exec')
        seen, cs = set(), []
        mon._walk(code, seen, cs)
        mon.watch(cs)
        _META_CODE[0] = code
    m = types.ModuleType('sourcer.parser')
    m.__file__ = P.__file__
    with locks.sut():
        exec(_META_CODE[0], m.__dict__)
    return m


def generated_codes(m):
    """Code objects compiled from generated source (file name '<...>'): not the re module's compile
    that a grammar module imports, not the harness callbacks it is armed with."""
    if getattr(m, '__name__', '') == 'sourcer.parser':
        return mon.codes_of_module(m)
    return [c for c in mon.codes_of_module(m) if c.co_filename.startswith('<') and c.co_filename.endswith('>')]


def fresh_text(text):
    """A new str/bytes object on every call (never an interned constant), dropped after the call."""
    if isinstance(text, list):          # ['bytes', 'latin-1 text'] or ['bytearray', 'latin-1 text']
        if text[0] == 'bytearray':
            return bytearray(text[1].encode('latin-1'))
        return bytes(text[1].encode('latin-1'))
    return (text + ' ')[:-1] if text else ''.join([])


def _text_object(env, task, op, ctx=None):
    """Usually a new object per call.  'prev': the very object this client passed to its previous call
    (same value); 'shared': one object per value for all clients of the run (a constant of the
    application) -- a cache keyed by the identity of the text then sees hits; 'outer': a nested call
    is handed the `_text` that its callback received from the enclosing call (`Sub.parse(_text, _pos)`)."""
    mode = op.get('textobj')
    tid = task.i if task is not None else None
    text = None
    if mode == 'outer':
        ot = ctx.outer_text if ctx is not None else None
        if ot is not None and _same_value(ot, op['text']):
            env.count('nested_call_on_the_text_object_of_the_enclosing_call')
            return ot
    elif mode == 'refill':
        # a mutable buffer: the caller overwrites the bytearray it passed to its previous call and parses it again
        prev = env.last_text.get(tid)
        if isinstance(prev, bytearray) and isinstance(op['text'], list):
            prev[:] = op['text'][1].encode('latin-1')
            text = prev
            env.count('text_buffer_refilled_in_place')
    elif mode == 'prev':
        prev = env.last_text.get(tid)
        if prev is not None and _same_value(prev, op['text']):
            text = prev
            env.count('same_text_object_as_previous_call')
    elif mode == 'shared' and not (isinstance(op['text'], list) and op['text'][0] == 'bytearray'):
        # (a mutable buffer is never shared between clients: refilling it while another client parses it would be
        # the user's data race, not sourcer's)
        k = json.dumps(op['text'])
        text = env.shared_texts.get(k)
        if text is None:
            text = env.shared_texts[k] = fresh_text(op['text'])
        else:
            env.count('text_object_shared_between_calls')
    if text is None:
        text = fresh_text(op['text'])
    if op.get('keep_text'):
        env.last_text[tid] = text
    else:
        env.last_text.pop(tid, None)
    return text


def _same_value(obj, wire):
    if isinstance(wire, list):
        want = bytearray if wire[0] == 'bytearray' else bytes
        return type(obj) is want and obj == wire[1].encode('latin-1')
    return isinstance(obj, str) and obj == wire


def entry_fn(module, entry):
    if entry == 'parse':
        return module.parse
    kind, name = entry.split(':', 1)
    obj = getattr(module, name)
    return obj.parse


def _outcome_of_call(fn, text, pos, full, keep=None):
    """keep: a list -- the caller of the abandoned call HOLDS ON to the exception (`last_error = e`): the traceback keeps
    the driver's frame and with it every suspended rule generator of the abandoned call alive; they are finalised
    (GeneratorExit, `finally:` blocks) only when the exception is dropped -- at a later `gc` event, possibly in the
    middle of another call."""
    try:
        with locks.sut():
            v = fn(text, pos, full) if pos is not None else fn(text)
        return fpm.outcome_fp('value', v), v
    except mon.StepBudget:
        return {'err': 'nontermination'}, None
    except locks.Deadlock:
        return {'err': 'deadlock'}, None
    except UserAbort as e:
        if keep is not None:
            keep.append(e)
        return {'abort': [e.tag, e.pos]}, None
    except UserAbortBase as e:
        if keep is not None:
            keep.append(e)
        return {'abort': [e.tag, e.pos], 'base': True}, None
    except MemoryError:
        return {'err': 'MemoryError'}, None
    except RecursionError as e:
        return {'err': 'RecursionError'}, None
    except Exception as e:
        raw = getattr(e, 'partial_result', None)
        if keep is not None:
            keep.append(e)          # `except ParseError as e: errors.append(e)`
        return fpm.outcome_fp('exc', e), raw


def run_op(env, ctx, op, path=()):
    """Execute one operation in the calling thread.  Returns a JSON-able outcome record."""
    kind = op['op']
    task = ctx.task
    if kind == 'parse':
        h = env.handles.get(op['mod'])
        if h is None or not h.ok:
            return {'path': list(path), 'out': {'skipped': 'no-module'}, 'fired': [], 'steps': 0, 'nested': []}
        fr = Frame(op.get('script'), path)
        ctx.stack.append(fr)
        start = task.local if task is not None else 0
        saved_deadline = None
        hard = False
        if task is not None:
            # every operation, nested or not, has its own budget; steps of a nested operation do
            # not count against the enclosing one; one hard cap bounds the whole top-level operation
            saved_deadline = task.deadline
            if len(ctx.stack) == 1:
                ctx.hard = task.local + HARD_CAP
            task.deadline = min(task.local + int(op.get('budget', REF_BUDGET)), ctx.hard)
        try:
            try:
                fn = entry_fn(h.module, op['entry'])
            except Exception as e:
                out, raw = {'err': 'entry:' + type(e).__name__}, None
            else:
                text = _text_object(env, task, op, ctx)
                out, raw = _outcome_of_call(fn, text, op.get('pos', 0), op.get('full', True),
                                            keep=env.kept if op.get('keep_exc') else None)
                if op.get('keep_exc') and 'abort' in out:
                    env.count('abandoned_call_kept_alive_by_its_exception')
                elif op.get('keep_exc') and 'err' in out:
                    env.count('failed_call_kept_alive_by_its_exception')
                del text
        except mon.StepBudget:
            out, raw = {'err': 'nontermination'}, None
        finally:
            ctx.stack.pop()
            if task is not None:
                hard = task.local >= ctx.hard
                if saved_deadline is not None and saved_deadline != mon.INF:
                    saved_deadline += task.local - start
                task.deadline = saved_deadline
        if hard and ctx.stack:
            # the hard cap belongs to the outermost operation: a nested call must not swallow it
            raise mon.StepBudget()
        if task is not None:
            env.last_raw[task.i] = raw
            env.last_mod[task.i] = h.module
        r = {'path': list(path), 'out': out, 'fired': fr.fired,
             'steps': (task.local - start) if task is not None else 0, 'nested': fr.nested}
        if fr.rec is not None and env.on_call_end is not None:
            env.on_call_end(r, fr, op)
        return r
    if kind == 'compile':
        return _run_compile(env, ctx, op, path)
    if kind == 'scramble':
        raw = env.last_raw.get(task.i if task is not None else None)
        n = scramble(raw)
        if n:
            env.count('scramble')
        return {'path': list(path), 'out': {'scrambled': n}, 'fired': [], 'steps': 0, 'nested': []}
    if kind == 'postprocess':
        # the caller works on the result it was handed with the module's own public tools
        # (transform with a node-swapping callback, visit, traverse, ==, hash, _replace)
        raw = env.last_raw.get(task.i if task is not None else None)
        mod = env.last_mod.get(task.i if task is not None else None)
        n = 0
        if raw is not None and mod is not None:
            saved = task.deadline if task is not None else None
            if task is not None:
                task.deadline = task.local + 400_000
            try:
                with locks.sut():
                    n = postprocess(mod, raw)
            except mon.StepBudget:
                n = -2
            except Exception:
                n = -1
            finally:
                if task is not None:
                    task.deadline = saved
            env.count('postprocess')
        return {'path': list(path), 'out': {'postprocessed': n}, 'fired': [], 'steps': 0, 'nested': []}
    if kind == 'burst':
        # a long-lived module: many ordinary calls before the calls that are judged (state that only builds up
        # over hundreds of calls: profiles, counters, caches that fill).  Not pre-empted, not recorded one by one;
        # every call has a step budget (a module may have texts on which it does not terminate).
        h = env.handles.get(op['mod'])
        n_done = 0
        if h is not None and h.ok:
            sim = env.sim
            saved_check = None
            saved_deadline = task.deadline if task is not None else None
            if sim is not None:
                saved_check, sim.next_check = sim.next_check, mon.INF      # no pre-emption inside the burst
            try:
                fn = entry_fn(h.module, 'parse')
                texts = [fresh_text(t) for t in op['texts']]
                with locks.sut():
                    for i in range(int(op['n'])):
                        if task is not None:
                            task.deadline = task.local + int(op.get('call_budget', 60_000))   # every call is bounded
                        try:
                            fn(texts[i % len(texts)])
                        except mon.StepBudget:
                            break
                        except Exception:
                            pass
                        n_done += 1
            except BaseException:
                pass
            finally:
                if task is not None:
                    task.deadline = saved_deadline
                if sim is not None:
                    sim.next_check = saved_check
            env.count('burst')
            env.count('calls_in_bursts', n_done)
        return {'path': list(path), 'out': {'burst': n_done}, 'fired': [], 'steps': 0, 'nested': []}
    if kind == 'clock_jump':
        clock.jump(float(op.get('seconds', 1.0)))
        env.count('clock_jump')
        return {'path': list(path), 'out': {'clock': op.get('seconds')}, 'fired': [], 'steps': 0, 'nested': []}
    if kind == 'gc':
        _collect(env)
        return {'path': list(path), 'out': {'gc': True}, 'fired': [], 'steps': 0, 'nested': []}
    if kind == 'forget':
        h = env.handles.get(op['mod'])
        if h is not None and h.name and sys.modules.get(h.name) is h.module:
            del sys.modules[h.name]
        if h is not None and op.get('drop'):
            h.module = None
            h.ok = False
        env.count('forget')
        return {'path': list(path), 'out': {'forgot': op['mod']}, 'fired': [], 'steps': 0, 'nested': []}
    raise ValueError('unknown op %r' % (kind,))


def _run_compile(env, ctx, op, path):
    task = ctx.task
    start = task.local if task is not None else 0
    parent = env.handles.get(op['extends']) if op.get('extends') is not None else None
    saved_deadline = None
    if task is not None:
        saved_deadline = task.deadline
        task.deadline = task.local + int(op.get('budget', 4 * REF_BUDGET))
    nm = op.get('name')
    before = sys.modules.get(nm) if nm else None
    if op.get('extends') is not None and (parent is None or not parent.ok):
        # The planned parent was not built in this run (its construction sat in a callback that was never reached, or
        # failed).  If its NAME is currently bound to another module of the run - an older generation - `extends`
        # would silently bind to that one and the plan's idea of this module's chain would be wrong: not executed.
        # (A name bound to a module that no handle knows - a parent still under construction - is the race that is
        # wanted; an unbound name makes the construction fail by itself.)
        pname = _extends_name(op['desc'])
        cur = sys.modules.get(pname) if pname else None
        if cur is not None and any(h.ok and h.module is cur for h in env.handles.values()):
            env.count('construction_skipped:planned_parent_not_built')
            env.handles[op['mod']] = Handle(op['mod'], None, (op['desc'],), op.get('name'))
            return {'path': list(path), 'out': {'skipped': 'planned-parent-not-built'}, 'fired': [], 'nested': [], 'steps': 0}
    # user code runs during a construction as well (Python sections are executed by Grammar()):
    # the construction is a call scope of the user-code seam like a parse
    fr = Frame(op.get('script'), path, 'compile')
    if task is not None and not ctx.stack:
        ctx.hard = task.local + HARD_CAP
    ctx.stack.append(fr)
    env.active_compiles += 1
    if env.active_compiles > 1:
        env.count('constructions_overlapping_in_time')
    try:
        m = compile_desc(op['desc'], watch=env.watch_new, include_source=bool(op.get('include_source')))
        out = {'compiled': sorted(n for n in vars(m) if not n.startswith('_'))}
    except mon.StepBudget:
        m, out = None, {'err': 'nontermination'}
    except locks.Deadlock:
        m, out = None, {'err': 'deadlock'}
    except (UserAbort, UserAbortBase) as e:
        m, out = None, {'abort': [e.tag, e.pos]}
        env.count('ctor_fail')
    except Exception as e:
        m, out = None, {'err': type(e).__name__, 'msg': fpm.norm_text(str(e))[:200]}
        env.count('ctor_fail')
    finally:
        env.active_compiles -= 1
        ctx.stack.pop()
        if task is not None:
            # steps of a nested operation do not count against the enclosing one
            if saved_deadline is not None and saved_deadline != mon.INF:
                saved_deadline += task.local - start
            task.deadline = saved_deadline
    if m is None:
        # a failed construction leaves the registry entry of its own name as it was (other
        # clients never define this name concurrently: see the bound in DESIGN 4.1)
        out['registry_changed'] = bool(nm) and (sys.modules.get(nm) is not before)
    elif before is not None:
        env.count('name_reuse')
    chain = (parent.chain if parent is not None else ()) + (op['desc'],)
    env.handles[op['mod']] = Handle(op['mod'], m, chain, op.get('name'))
    if m is not None and op.get('include_source'):
        env.built_sources[op['mod']] = getattr(m, '_source_code', None)
    if m is not None and env.sim is not None:
        for c in generated_codes(m):
            env.sim.hot |= mon.hot_lines(c, vars(m))
        if getattr(env, 'instr', False):
            for c in generated_codes(m):
                env.sim.hot_strict |= mon.hot_lines(c, vars(m), strict=True)
            env.sim.enable_instr()
    return {'path': list(path), 'out': out, 'fired': fr.fired, 'nested': fr.nested,
            'steps': (task.local - start) if task is not None else 0}


def postprocess(mod, raw):
    PO = getattr(mod, 'ParsedObject', None)
    if PO is None:
        return 0
    count = [0]

    def swap(node):
        # swap nodes that carry position info for fresh objects that have no metadata of their own
        if isinstance(node, PO) and node._fields and type(node).__name__ not in ('Infix', 'Prefix', 'Postfix'):
            count[0] += 1
            return mod.Infix(getattr(node, node._fields[0], None), '~', None)
        return node
    out = mod.transform(raw, swap)
    for node in mod.visit(raw):
        try:
            hash(node)
            node == node
            node._replace()
        except Exception:
            pass
    for _ in mod.traverse(raw):
        pass
    for node in mod.visit(out):
        repr(node)
    return count[0]


def scramble(v):
    """A hostile client mutates the object it was handed (after it was fingerprinted)."""
    n = 0
    seen = set()
    stack = [v]
    while stack:
        x = stack.pop()
        if id(x) in seen:
            continue
        seen.add(id(x))
        if isinstance(x, list):
            stack.extend(x)
            x.append('SCRAMBLED')
            if len(x) > 1:
                x[0] = 'SCRAMBLED0'
            n += 1
        elif isinstance(x, dict):
            stack.extend(x.values())
            x['SCRAMBLED'] = 1
            n += 1
        elif isinstance(x, tuple):
            stack.extend(x)
        elif hasattr(x, '_fields') and hasattr(x, '_metadata') and not isinstance(x, type):
            for f in x._fields:
                try:
                    stack.append(getattr(x, f))
                    setattr(x, f, 'SCRAMBLED')
                except Exception:
                    pass
            try:
                x._metadata.position_info = ('scrambled', 'scrambled')
                x._hash = 12345
            except Exception:
                pass
            n += 1
    return n


# ------------------------------------------------------------------------------- pristine source server

_REF_SERVER = None      # (request write fd, response read fd) of a process that has never constructed a grammar


def _send(fd, obj):
    import pickle
    import struct
    data = pickle.dumps(obj, protocol=pickle.HIGHEST_PROTOCOL)
    os.write(fd, struct.pack('<Q', len(data)))
    off = 0
    while off < len(data):
        off += os.write(fd, data[off:off + (1 << 16)])


def _recv(fd):
    import pickle
    import struct

    def rd(n):
        buf = b''
        while len(buf) < n:
            b = os.read(fd, n - len(buf))
            if not b:
                raise EOFError
            buf += b
        return buf
    n = struct.unpack('<Q', rd(8))[0]
    return pickle.loads(rd(n))


def _generate_sources(chain):
    """In the calling process: the source sourcer generates for every description of the chain."""
    out = []
    with isolated_registry():
        try:
            for desc in chain:
                m = compile_desc(desc, watch=False, include_source=True)
                out.append((_named(desc), m._source_code, m.__doc__))
        except Exception as e:
            return ('fail', type(e).__name__, str(e)[:200])
    return out


def start_ref_server():
    """Fork a server from the calling process, which must be pristine (sourcer imported, no grammar
    ever constructed).  For every request the server forks a child that generates the sources of
    one chain with the real Grammar() -- in a process where nothing else was ever constructed --
    and sends them back.  That is the reference meaning of 'depends only on the description'."""
    global _REF_SERVER
    if _REF_SERVER is not None:
        return
    import sourcer  # noqa: F401  (imported in the parent, so that the server need not)
    q_r, q_w = os.pipe()
    a_r, a_w = os.pipe()
    pid = os.fork()
    if pid == 0:
        try:
            os.close(q_w)
            os.close(a_r)
            import signal
            signal.signal(signal.SIGALRM, signal.SIG_DFL)
            while True:
                try:
                    chain = _recv(q_r)
                except EOFError:
                    break
                signal.alarm(3600)
                c = os.fork()
                if c == 0:
                    try:
                        signal.alarm(300)
                        try:
                            res = _generate_sources(chain)
                        except BaseException as e:
                            res = ('fail', type(e).__name__, str(e)[:200])
                        _send(a_w, res)
                    finally:
                        os._exit(0)
                _, status = os.waitpid(c, 0)
                if status != 0:
                    _send(a_w, ('fail', 'ServerChildDied', str(status)))
        finally:
            os._exit(0)
    os.close(q_r)
    os.close(a_w)
    _REF_SERVER = (q_w, a_r)


def pristine_sources(chain):
    if _REF_SERVER is None:
        return _generate_sources(chain)
    _send(_REF_SERVER[0], tuple(chain))
    return _recv(_REF_SERVER[1])


# ------------------------------------------------------------------------------- references

_SRC_CACHE = {}       # chain -> list of pristine generated sources (for the construction-divergence lead)
_CODE_CACHE = {}      # chain (tuple of descs) -> list of (name, code, doc) or ('fail', exc info)
_CODE_CACHE_MAX = 64


def _extends_name(desc):
    for line in desc.split('\n'):
        t = line.strip()
        if not t or t.startswith('#'):
            continue
        w = t.split()
        if w[0] == 'grammar' and 'extends' in w:
            return w[w.index('extends') + 1]
        return None
    return None


def _named(desc):
    """The registry name a description installs itself under (None for unnamed grammars)."""
    for line in desc.split('\n'):
        s = line.strip()
        if not s or s.startswith('#'):
            continue
        if s.startswith('grammar '):
            return s.split()[1]
        return None
    return None


def build_chain_real(chain):
    """Compile a chain with the real Grammar() in the current (isolated) registry."""
    mods = []
    for desc in chain:
        mods.append(compile_desc(desc))
    return mods


def chain_codes(chain, fresh=False):
    """Code objects for a chain, obtained from a real Grammar(include_source=True) compile.
    fresh=True: generate the source again now (not cached, not stored)."""
    key = tuple(chain)
    hit = None if fresh else _CODE_CACHE.get(key)
    if hit is not None:
        return hit
    # fresh=True: generated now, in this process (with whatever it has constructed before);
    # otherwise: generated by the pristine source server, if one is running
    srcs = _generate_sources(chain) if fresh else pristine_sources(chain)
    if isinstance(srcs, tuple):
        out = srcs
    else:
        out = []
        if not fresh:
            if len(_SRC_CACHE) >= _CODE_CACHE_MAX:
                _SRC_CACHE.pop(next(iter(_SRC_CACHE)))
            _SRC_CACHE[key] = [src for _, src, _ in srcs]
        for name, src, doc in srcs:
            code = compile(src, '<%s>' % (name or 'grammar'), 'exec', optimize=2)
            seen, cs = set(), []
            mon._walk(code, seen, cs)
            mon.watch(cs)
            out.append((name, code, doc))
    if fresh:
        return out
    if len(_CODE_CACHE) >= _CODE_CACHE_MAX:
        _CODE_CACHE.pop(next(iter(_CODE_CACHE)))
    _CODE_CACHE[key] = out
    return out


def pristine_source(chain):
    """The source a pristine process generates for the last description of the chain (None if unavailable)."""
    key = tuple(chain)
    if key not in _SRC_CACHE:
        chain_codes(chain)
    got = _SRC_CACHE.get(key)
    return got[-1] if got else None


def build_chain_fast(chain, fresh=False):
    """Pristine modules for a chain by exec of the cached generated code (fast reference path).
    Must be called inside isolated_registry()."""
    codes = chain_codes(chain, fresh)
    if isinstance(codes, tuple):
        raise RuntimeError('chain does not compile: %s %s' % (codes[1], codes[2]))
    mods = []
    for name, code, doc in codes:
        m = types.ModuleType(name or 'grammar', doc=doc)
        with locks.sut():
            exec(code, m.__dict__)
        if name:
            install_plain(name, m)
        arm(m)
        mods.append(m)
    return mods


def exec_module(chain):
    """Sim-side set-up without the cost of Grammar(): exec the code that an earlier, real
    Grammar() call generated for the last description of `chain`; the ancestors must already be
    installed in the registry.  Installation goes through sourcer's own _install_module."""
    codes = chain_codes(chain)
    if isinstance(codes, tuple):
        raise RuntimeError('chain does not compile: %s %s' % (codes[1], codes[2]))
    name, code, doc = codes[-1]
    m = types.ModuleType(name or 'grammar', doc=doc)
    with locks.sut():
        exec(code, m.__dict__)
    if name:
        import sourcer.grammar as sg
        sg._install_module(name, m)
    arm(m)
    return m


def install_plain(name, module):
    """Reference-side installer (does not use sourcer's own): dotted names get package modules."""
    parts = name.split('.')
    for i in range(1, len(parts)):
        pk = '.'.join(parts[:i])
        if pk not in sys.modules:
            sys.modules[pk] = types.ModuleType(pk)
    sys.modules[name] = module
    if len(parts) > 1:
        setattr(sys.modules['.'.join(parts[:-1])], parts[-1], module)


def reference_outcome(chain, op, definitive=False, on_hook=None, exec_now=False):
    """The same operation executed alone: fresh modules compiled from the same descriptions,
    one client, no pre-emption, no earlier operations, no nested parses (their outcome is
    judged on its own).  definitive=True uses the real Grammar() for the fresh modules."""
    env = Env('ref', allow_nest=False)
    env.on_hook = on_hook
    with isolated_registry(), pristine_interpreter_settings():
        try:
            if len(chain) == 1 and chain[0].startswith('<builtin '):
                mods = [fresh_builtin(chain[0][len('<builtin '):-1])]
            elif exec_now:
                mods = build_chain_fast(chain, fresh=True)
            else:
                mods = build_chain_real(chain) if definitive else build_chain_fast(chain)
        except Exception as e:
            return {'path': [], 'out': {'err': 'ref-compile:' + type(e).__name__}, 'fired': [], 'steps': 0,
                    'nested': []}
        env.handles[op['mod']] = Handle(op['mod'], mods[-1], tuple(chain), None)
        rec = run_inline(env, lambda ctx: run_op(env, ctx, op))
    return rec


def reference_compile(parent_chain, op, watch_library=False):
    """Reference for a compile operation: the same Grammar() call with only its ancestors present.
    watch_library: count the steps of sourcer's own code as a simulated run with constructions does."""
    env = Env('ref', allow_nest=False, watch_new=False)
    if watch_library:
        mon.watch(mon.library_codes())
        mon.watch_module_bodies(True)
        try:
            return reference_compile(parent_chain, op)
        finally:
            mon.watch_module_bodies(False)
            mon.unwatch(mon.library_codes())
    with isolated_registry():
        try:
            build_chain_fast(parent_chain) if parent_chain else None
        except Exception as e:
            return {'path': [], 'out': {'err': 'ref-compile:' + type(e).__name__}, 'fired': [], 'steps': 0,
                    'nested': []}
        if op.get('extends') is not None:
            env.handles[op['extends']] = Handle(op['extends'], True, tuple(parent_chain), None)
        rec = run_inline(env, lambda ctx: run_op(env, ctx, dict(op, budget=10**9)))
    return rec


def run_inline(env, fn):
    """Run fn(ctx) in the calling thread as a single simulated task (step clock on, no pre-emption)."""
    sim = mon.Sim(mon.Sequential())
    t = mon.Task(0, None)
    t.ident = threading.get_ident()
    sim.tasks.append(t)
    ctx = ExecCtx(env, t)
    ident = t.ident
    if mon._SIM is not None:
        raise mon.HarnessError('run_inline inside a running simulation')
    mon.install()
    _CTX[ident] = ctx
    env.sim = sim
    mon._SIM = sim
    sim.cur = t
    try:
        return fn(ctx)
    finally:
        mon._SIM = None
        sim.cur = None
        env.sim = None
        _CTX.pop(ident, None)


def strip_nests(op):
    """The operation as it is judged in isolation: nested parses removed from its script."""
    sc = op.get('script')
    if not sc:
        return op
    out = dict(op)
    out['script'] = {k: v for k, v in sc.items() if not (isinstance(v, dict) and 'nest' in v)}
    return out


def op_key(op):
    o = {k: v for k, v in strip_nests(op).items()
         if k not in ('budget', 'textobj', 'keep_text', 'keep_exc') and not k.startswith('_')}
    return json.dumps(o, sort_keys=True)

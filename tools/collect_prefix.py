#!/venv/bin/python
"""Collect one minimised replay per defect shape on the current tree (used once, before the fix: commits)."""
import sys, json, os
sys.path.insert(0, '/verif')
import resource
resource.setrlimit(resource.RLIMIT_AS, (3 << 30, 3 << 30))
from engines import lineage as ln
want = {'lineage:model/parse:anonymous-ignore-in-ancestor': 'D1', 'lineage:model/parse:ignore-at-two-levels': 'D2',
        'lineage:model/parse:super-in-middle-level': 'D3', 'lineage:model/define:dotted-parent-name': 'D4',
        'lineage:model/parse:grandchild-mentions-grandparent-only-rule': 'D5',
        'lineage:model/parse:rule-passed-as-template-argument': 'D6'}
got = {}
for i in range(int(sys.argv[1])):
    r = ln.run_one(0, i)
    for v in r['violations']:
        k = ln.finding_key({'violation': v})
        if k in want and k not in got:
            doc = {'prop': 'C13', 'engine': 'lineage', 'verif_seed': 0, 'index': i, 'plan': r['plan'], 'schedule': None,
                   'violation': v, 'key': k, 'minimised': False}
            doc = ln.minimise(doc, 30)
            got[k] = doc
            path = '/verif/replays/pre-fix/C13-%s.json' % want[k]
            json.dump(doc, open(path, 'w'), indent=1, sort_keys=True)
            print(want[k], k, 'index', i, 'ops', len(doc['plan']['ops']), json.dumps(doc['violation'])[:300])
    if len(got) == len(want):
        break
print('missing', [v for k, v in want.items() if k not in got])

#!/venv/bin/python
"""tools/counters.py <engine> <first> <n> : run n indices (forked, like the runner) and print aggregated counters."""
import os, sys, json
sys.path.insert(0, os.path.dirname(os.path.dirname(os.path.abspath(__file__))))
if os.environ.get('PYTHONHASHSEED') is None:
    os.environ['PYTHONHASHSEED'] = '0'
    os.execv(sys.executable, [sys.executable] + sys.argv)
if os.environ.get('VERIF_REPO'): sys.path.insert(0, os.environ['VERIF_REPO'])
from simkit import runner
eng, first, n = sys.argv[1], int(sys.argv[2]), int(sys.argv[3])
from concurrent.futures import ProcessPoolExecutor
import multiprocessing
E = runner._import_engine(eng)
chunk = getattr(E, 'RUNS_PER_UNIVERSE', 12)
groups = []
i = first
while i < first + n:
    k = min(chunk - i % chunk, first + n - i)
    groups.append(list(range(i, i + k)))
    i += k
tot = {}
viol = []
harness = []
with ProcessPoolExecutor(max_workers=int(os.environ.get('W', '8')), mp_context=multiprocessing.get_context('fork')) as ex:
    for res in ex.map(lambda g: None, []):
        pass
    futs = [ex.submit(runner._work, eng, int(os.environ.get('VERIF_SEED', '0')), g, 'quick', 600) for g in groups]
    for f in futs:
        for s in f.result():
            if s.get('harness'):
                harness.append(s)
            for k, v in (s.get('counters') or {}).items():
                tot[k] = tot.get(k, 0) + v
            for v in s.get('violations', []):
                viol.append((s['index'], v['violation']))
print(json.dumps(tot, indent=1, sort_keys=True))
print('harness:', len(harness), [h.get('harness', '')[:300] for h in harness[:3]])
print('violations:', len(viol))
for i, v in viol[:5]:
    print(i, json.dumps(v)[:1500])

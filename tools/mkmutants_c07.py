#!/venv/bin/python
"""C07 sensitivity mutants (DESIGN 4.3 / section 6) -> /verif/mutants/C07/*.diff"""
import sys
sys.argv.append('C07') if len(sys.argv) == 1 else None
sys.path.insert(0, '/verif/tools')
import mkmutants_c18 as K
K.MUTANTS.clear()
T = K.T
edit, mutant = K.edit, K.mutant

@mutant
def memo_never_hit():
    edit(T, "        elif result in memo:\n            result = memo[result]\n        else:", "        else:")

@mutant
def memo_successes_only():
    edit(T, "            stack.pop()\n            memo[key] = result\n", "            stack.pop()\n            if result[0]:\n                memo[key] = result\n")

@mutant
def memo_bounded_lru():
    edit(T, "            stack.pop()\n            memo[key] = result\n", "            stack.pop()\n            memo[key] = result\n            if len(memo) > 6:\n                memo.pop(next(iter(memo)))\n")

@mutant
def memo_key_includes_depth():
    # keyed wrongly but conservatively: a hit only when the reference sits at the same stack depth
    edit(T, "        elif result in memo:\n            result = memo[result]\n        else:\n            gtor = result[1](${ctx}text, result[2])\n            stack.append((result, gtor))",
            "        elif (result, len(stack)) in memo:\n            result = memo[(result, len(stack))]\n        else:\n            gtor = result[1](${ctx}text, result[2])\n            stack.append((result, gtor))")
    edit(T, "            stack.pop()\n            memo[key] = result\n", "            stack.pop()\n            memo[(key, len(stack))] = result\n")

@mutant
def memo_hit_returns_copy():
    edit(T, "        elif result in memo:\n            result = memo[result]\n", "        elif result in memo:\n            result = memo[result]\n            if result[0] and isinstance(result[1], (list, ParsedObject)):\n                import copy\n                result = (result[0], copy.copy(result[1]), result[2])\n")

@mutant
def memo_module_level_cleared_at_entry():
    edit(T, "def _run(${ctx}text, pos, start, fullparse):\n    memo = {}\n", "_MEMO = {}\n\ndef _run(${ctx}text, pos, start, fullparse):\n    memo = _MEMO\n    memo.clear()\n")

@mutant
def memo_skipped_for_late_positions():
    edit(T, "            stack.pop()\n            memo[key] = result\n", "            stack.pop()\n            if key[2] < 12:\n                memo[key] = result\n")

@mutant
def ignored_rule_not_memoised_only():
    # control: must stay silent -- only the synthetic _ignored rule escapes the memo
    edit(T, "            stack.pop()\n            memo[key] = result\n", "            stack.pop()\n            if getattr(key[1], '__name__', '') != '_try__ignored':\n                memo[key] = result\n")

if __name__ == '__main__':
    K.OUT = '/verif/mutants/C07'
    K.fresh()
    for name, f in K.MUTANTS.items():
        f(); K.save(name); print('wrote', name)
    import shutil; shutil.rmtree(K.WT, ignore_errors=True)

#!/venv/bin/python
"""C13 sensitivity mutants (DESIGN 4.2 / section 6) -> /verif/mutants/C13/*.diff (against /repo HEAD, i.e. the repaired tree)"""
import sys
sys.path.insert(0, '/verif/tools')
import mkmutants_c18 as K
K.MUTANTS.clear()
T = K.T
edit, mutant = K.edit, K.mutant
R = 'sourcer/expressions/ref.py'

@mutant
def revert_D3_super_on_runtime_context():
    edit(R, "        if flags.uses_context and not self.is_local and not self.is_super:\n            func = Code(f'_ctx.{self.resolved}')", "        if flags.uses_context and not self.is_local:\n            func = Code(f'_ctx.{self.resolved}')")

@mutant
def revert_D1_child_context_by_name_only():
    edit(T, "            out += Code('_ctx.__dict__.update(_super_ctx.__dict__)')\n", "")

@mutant
def revert_D5_immediate_parent_only():
    edit(T, "    while extends is not None:\n        for stmt in extends.body:\n            if hasattr(stmt, 'name'):\n                rule_names.add(stmt.name)\n        extends = extends.extends\n",
            "    if extends is not None:\n        for stmt in extends.body:\n            if hasattr(stmt, 'name'):\n                rule_names.add(stmt.name)\n")

@mutant
def revert_D2_inherited_ignore_by_wrong_name():
    edit(T, "            inherited = Ref('super._ignored')\n            inherited._resolved = '_super_ctx.' + ex.implementation_name('_ignored')\n            refs.append(ex.Opt(inherited))\n",
            "            refs.append(Ref('_super_ctx._ignored'))\n")

@mutant
def revert_D4_dotted_names_not_registered():
    edit('sourcer/grammar.py', "    sys.modules[name] = module\n    if '.' not in name:\n        return\n", "    if '.' not in name:\n        sys.modules[name] = module\n        return\n")

@mutant
def revert_D6_template_argument_early_bound():
    edit(R, "        if flags.uses_context and not self.is_local and not self.is_super:\n            return Code(f'_ctx.{self.resolved}')\n        return Code(self.resolved)", "        return Code(self.resolved)")

@mutant
def inherited_ignore_dropped_when_child_declares_its_own():
    edit(T, "        if super_has_ignore:\n            # The parent's", "        if False and super_has_ignore:\n            # The parent's")

@mutant
def child_ignore_written_into_parent_context():
    # "creating B changes A": the combined ignore rule is also stored on the parent's context
    edit(T, "        if ignored:\n            impl_name = ex.implementation_name('_ignored')\n            out += Code(f'_ctx.{impl_name} = {impl_name}')\n",
            "        if ignored:\n            impl_name = ex.implementation_name('_ignored')\n            out += Code(f'_ctx.{impl_name} = {impl_name}')\n            if parsed.extends is not None and super_has_ignore:\n                out += Code(f'_super_ctx.{impl_name} = {impl_name}')\n")

@mutant
def lookahead_references_early_bound():
    # references directly under Expect/ExpectNot bypass the context (bound to the defining module)
    edit('sourcer/expressions/expect.py', "    def _compile(self, out, flags):\n        backtrack = out.var('backtrack', POS)\n\n        with utils.if_succeeds(out, flags, self.expr):",
         "    def _compile(self, out, flags):\n        backtrack = out.var('backtrack', POS)\n        if getattr(self.expr, 'is_reference', False) and self.expr._resolved and not self.expr.is_super:\n            self.expr.is_local = True\n            self.expr.name = self.expr._resolved\n            self.expr._resolved = None\n\n        with utils.if_succeeds(out, flags, self.expr):")

@mutant
def start_of_child_is_its_first_own_rule():
    edit(T, "        while start_name is None and ancestor is not None:", "        while False and start_name is None and ancestor is not None:")

@mutant
def class_parse_entry_early_bound():
    # B.<Class>.parse of an overriding class goes to the module-level function, fine; but the class
    # *field references* of classes are compiled with the context dropped when the class has one field
    edit('sourcer/expressions/class_.py', "                seq.program_id = self.extra_id\n                seq.compile(out, flags)",
         "                seq.program_id = self.extra_id\n                if len(self.members) == 1 and getattr(self.members[0].expr, 'is_reference', False) and self.members[0].expr._resolved and not self.members[0].expr.is_super:\n                    self.members[0].expr.is_local = True\n                    self.members[0].expr.name = self.members[0].expr._resolved\n                seq.compile(out, flags)")

@mutant
def derived_context_shared_between_siblings():
    # "one derived context per parent": the second grammar that extends A re-uses the context object
    # that the first one created -- A itself is untouched, the siblings see each other's rules
    edit(T, "        out += Code('_ctx = _Context()')\n\n        if parsed.extends is not None:",
         "        if parsed.extends is not None:\n            out += Code(\"_ctx = _super_ctx.__dict__.get('_derived') or _Context()\")\n            out += Code('_super_ctx._derived = _ctx')\n        else:\n            out += Code('_ctx = _Context()')\n\n        if parsed.extends is not None:")

@mutant
def sibling_overrides_recorded_on_parent_rule_objects():
    # the names a derived grammar overrides are remembered on the parent's ParsingRule objects ("has
    # overrides -> take the slow path"); a second derived grammar then treats them as overridden too
    # and binds its inherited references to them to the first sibling's module when that is loaded
    edit(T, "                    out += Code(f'_ctx.{impl_name} = _super_ctx.{impl_name}')\n                    visited_names.add(stmt.name)",
         "                    out += Code(f'_ctx.{impl_name} = getattr(_super_ctx, \"_latest_{impl_name}\", _super_ctx.{impl_name})')\n                    visited_names.add(stmt.name)")
    edit(T, "                out += Code(f'_ctx.{impl_name} = {impl_name}')\n                visited_names.add(rule.name)",
         "                out += Code(f'_ctx.{impl_name} = {impl_name}')\n                if parsed.extends is not None:\n                    out += Code(f'_super_ctx._latest_{impl_name} = {impl_name}')\n                visited_names.add(rule.name)")

if __name__ == '__main__':
    K.OUT = '/verif/mutants/C13'
    K.fresh()
    only = sys.argv[1:]
    for name, f in K.MUTANTS.items():
        if only and name not in only:
            continue
        try:
            f(); K.save(name); print('wrote', name)
        except Exception as e:
            print('FAILED', name, repr(e)[:200]); K.sh('git', '-C', K.WT, 'checkout', '--', '.')
    import shutil; shutil.rmtree(K.WT, ignore_errors=True)

#!/venv/bin/python
"""Builds the C18 sensitivity mutants (DESIGN section 6) as unified diffs against /repo HEAD.
Usage: tools/mkmutants_c18.py   (writes /verif/mutants/C18/*.diff; scratch tree under /dev/shm)"""
import os, subprocess, shutil, sys
WT = '/dev/shm/mk_wt'
OUT = '/verif/mutants/' + (sys.argv[1] if len(sys.argv) > 1 else 'C18')

def sh(*a, **k):
    return subprocess.run(a, check=True, capture_output=True, text=True, **k).stdout

def fresh():
    shutil.rmtree(WT, ignore_errors=True)
    os.makedirs(WT)
    subprocess.run('git -C /repo archive HEAD | tar x -C %s' % WT, shell=True, check=True)
    sh('git', 'init', '-q', WT); sh('git', '-C', WT, 'add', '-A'); sh('git', '-C', WT, '-c', 'user.email=a@b', '-c', 'user.name=x', 'commit', '-qm', 'base')

def edit(path, old, new, count=1):
    p = os.path.join(WT, path)
    s = open(p).read()
    assert s.count(old) >= 1, (path, old)
    s = s.replace(old, new, count)
    open(p, 'w').write(s)

def save(name):
    d = sh('git', '-C', WT, 'diff')
    assert d.strip(), name
    os.makedirs(OUT, exist_ok=True)
    open(os.path.join(OUT, name + '.diff'), 'w').write(d)
    sh('git', '-C', WT, 'checkout', '--', '.')

T = 'sourcer/translator.py'
MUTANTS = {}
def mutant(f):
    MUTANTS[f.__name__] = f
    return f

@mutant
def memo_module_level_never_cleared():
    edit(T, "def _run(${ctx}text, pos, start, fullparse):\n    memo = {}\n", "_MEMO = {}\n\ndef _run(${ctx}text, pos, start, fullparse):\n    memo = _MEMO\n")

@mutant
def memo_module_level_cleared_at_entry():
    edit(T, "def _run(${ctx}text, pos, start, fullparse):\n    memo = {}\n", "_MEMO = {}\n\ndef _run(${ctx}text, pos, start, fullparse):\n    memo = _MEMO\n    memo.clear()\n")

@mutant
def memo_module_level_cleared_on_normal_exit_only():
    edit(T, "def _run(${ctx}text, pos, start, fullparse):\n    memo = {}\n", "_MEMO = {}\n\ndef _run(${ctx}text, pos, start, fullparse):\n    memo = _MEMO\n")
    edit(T, "    if result[0]:\n        return _finalize_parse_info(text, result[1], result[2], fullparse)", "    memo.clear()\n    if result[0]:\n        return _finalize_parse_info(text, result[1], result[2], fullparse)")

@mutant
def linemap_cache_by_len():
    edit(T, "def _map_index_to_line_and_column(text):\n    line_numbers = []", "_LINEMAP = {}\n\ndef _map_index_to_line_and_column(text):\n    if len(text) in _LINEMAP:\n        return _LINEMAP[len(text)]\n    line_numbers = []")
    edit(T, "        column_numbers.append(current_column)\n\n    return line_numbers, column_numbers", "        column_numbers.append(current_column)\n\n    _LINEMAP[len(text)] = (line_numbers, column_numbers)\n    return line_numbers, column_numbers")

@mutant
def linemap_cache_by_id():
    edit(T, "def _map_index_to_line_and_column(text):\n    line_numbers = []", "_LINEMAP = {}\n\ndef _map_index_to_line_and_column(text):\n    if id(text) in _LINEMAP:\n        return _LINEMAP[id(text)]\n    line_numbers = []")
    edit(T, "        column_numbers.append(current_column)\n\n    return line_numbers, column_numbers", "        column_numbers.append(current_column)\n\n    _LINEMAP[id(text)] = (line_numbers, column_numbers)\n    return line_numbers, column_numbers")

@mutant
def stack_module_level_reused():
    edit(T, "    key = ($CALL, start, pos)\n    gtor = start(${ctx}text, pos)\n    stack = [(key, gtor)]\n\n    while stack:",
         "    key = ($CALL, start, pos)\n    gtor = start(${ctx}text, pos)\n    stack = _STACK\n    stack.append((key, gtor))\n\n    while stack:")
    edit(T, "def _run(${ctx}text, pos, start, fullparse):\n    memo = {}\n", "_STACK = []\n\ndef _run(${ctx}text, pos, start, fullparse):\n    memo = {}\n")

@mutant
def child_writes_overrides_into_parent_context():
    edit(T, "                out += Code(f'_ctx.{impl_name} = {impl_name}')\n                visited_names.add(rule.name)",
         "                out += Code(f'_ctx.{impl_name} = {impl_name}')\n                if parsed.extends is not None and rule.name in {getattr(s, 'name', None) for s in parsed.extends.body}:\n                    out += Code(f'_super_ctx.{impl_name} = {impl_name}')\n                visited_names.add(rule.name)")

@mutant
def install_module_updates_existing_in_place():
    edit('sourcer/grammar.py', "    sys.modules[name] = module\n    if '.' not in name:\n        return\n",
         "    if name in sys.modules:\n        sys.modules[name].__dict__.update(module.__dict__)\n    else:\n        sys.modules[name] = module\n    if '.' not in name:\n        return\n")

@mutant
def last_error_position_kept_at_module_level():
    # a 'farthest failure' hint kept between calls and used when the next call fails
    edit(T, "    else:\n        pos = result[2]\n        message = result[1](text, pos)\n        raise ParseError(message, pos)",
         "    else:\n        global _LAST_FAIL\n        pos = max(result[2], _LAST_FAIL) if _LAST_FAIL < len(text) else result[2]\n        _LAST_FAIL = result[2]\n        message = result[1](text, pos)\n        raise ParseError(message, pos)")
    edit(T, "def _run(${ctx}text, pos, start, fullparse):\n    memo = {}\n", "_LAST_FAIL = 0\n\ndef _run(${ctx}text, pos, start, fullparse):\n    memo = {}\n")

@mutant
def text_kept_in_module_global_for_error_messages():
    # error builders read the text from a module global set at entry: wrong under re-entrancy / interleaving
    edit(T, "def _run(${ctx}text, pos, start, fullparse):\n    memo = {}\n", "_CURRENT = [None]\n\ndef _run(${ctx}text, pos, start, fullparse):\n    _CURRENT[0] = text\n    memo = {}\n")
    edit(T, "        message = result[1](text, pos)", "        message = result[1](_CURRENT[0], pos)")

@mutant
def memo_module_level_cleared_unless_base_exception():
    # module-level memo, cleared on normal exit and when an Exception passes through -- but user code
    # can raise a BaseException (KeyboardInterrupt, SystemExit, GeneratorExit ...)
    edit(T, "def _run(${ctx}text, pos, start, fullparse):\n    memo = {}\n", "_MEMO = {}\n\ndef _run(${ctx}text, pos, start, fullparse):\n    memo = _MEMO\n")
    edit(T, "    while stack:\n        key, gtor = stack[-1]\n        result = gtor.send(result)\n",
         "    while stack:\n        key, gtor = stack[-1]\n        try:\n            result = gtor.send(result)\n        except Exception:\n            memo.clear()\n            raise\n")
    edit(T, "    if result[0]:\n        return _finalize_parse_info(text, result[1], result[2], fullparse)", "    memo.clear()\n    if result[0]:\n        return _finalize_parse_info(text, result[1], result[2], fullparse)")

@mutant
def memo_kept_while_same_text_object():
    # "incremental" use: the memo of the previous call is kept while the caller passes the very same
    # text object again (identity, strong reference) -- its nodes were finalised by the previous call
    edit(T, "def _run(${ctx}text, pos, start, fullparse):\n    memo = {}\n",
         "_LAST = [None, None]\n\ndef _run(${ctx}text, pos, start, fullparse):\n    if _LAST[0] is text:\n        memo = _LAST[1]\n    else:\n        memo = {}\n        _LAST[0], _LAST[1] = text, memo\n")

@mutant
def recursion_limit_saved_in_module_global_during_construction():
    # non-reentrant save/restore around translation AND execution of the generated module: a construction
    # started from a Python section of a grammar under construction (or by another thread) loses the saved value
    edit('sourcer/grammar.py', "    # Generate and compile the souce code.\n    builder = translator.generate_source_code(docstring, parsed)\n    module = builder.compile(\n        module_name=name,\n        docstring=docstring,\n        source_var='_source_code' if include_source else None,\n    )\n",
         "    # Generate and compile the souce code.\n    global _saved_limit\n    _saved_limit = sys.getrecursionlimit()\n    sys.setrecursionlimit(max(_saved_limit, 5000))\n    try:\n        builder = translator.generate_source_code(docstring, parsed)\n        module = builder.compile(\n            module_name=name,\n            docstring=docstring,\n            source_var='_source_code' if include_source else None,\n        )\n    finally:\n        sys.setrecursionlimit(_saved_limit)\n")

@mutant
def literal_wrapper_published_before_complete_within_one_line():
    # one wrapper per call site, published and completed in ONE source line: the window between
    # `setdefault` returning and the attribute store exists only inside the line
    edit(T, "def _wrap_string_literal(string_value, parse_function):\n    result = _StringLiteral(string_value)\n    result._parse_function = parse_function\n    return result",
         "_literals = {}\n\n\ndef _wrap_string_literal(string_value, parse_function):\n    result = _literals.get(parse_function)\n    if result is None:\n        _literals.setdefault(parse_function, _StringLiteral(string_value))._parse_function = parse_function\n        result = _literals[parse_function]\n    return result")

@mutant
def driver_under_a_non_reentrant_module_lock():
    # "make parse thread-safe": one plain lock per grammar family around the driver -- a nested parse started from
    # inline Python waits for the lock its own enclosing call holds
    edit(T, "def _run(${ctx}text, pos, start, fullparse):\n    memo = {}\n", "import threading as _threading\n_run_lock = _threading.Lock()\n\n\ndef _run(${ctx}text, pos, start, fullparse):\n    with _run_lock:\n        return _run_locked(${ctx}text, pos, start, fullparse)\n\n\ndef _run_locked(${ctx}text, pos, start, fullparse):\n    memo = {}\n")

@mutant
def driver_lock_not_released_when_user_code_raises():
    # a re-entrant lock, acquired at entry and released on the two regular ways out -- not when inline Python raises
    edit(T, "def _run(${ctx}text, pos, start, fullparse):\n    memo = {}\n", "import threading as _threading\n_run_lock = _threading.RLock()\n\n\ndef _run(${ctx}text, pos, start, fullparse):\n    _run_lock.acquire()\n    memo = {}\n")
    edit(T, "    if result[0]:\n        return _finalize_parse_info(text, result[1], result[2], fullparse)\n    else:\n        pos = result[2]\n        message = result[1](text, pos)",
         "    _run_lock.release()\n    if result[0]:\n        return _finalize_parse_info(text, result[1], result[2], fullparse)\n    else:\n        pos = result[2]\n        message = result[1](text, pos)")

@mutant
def linemap_cached_for_50ms_by_length():
    # a time-to-live makes the stale entry depend on the clock: under the simulator the clock is virtual
    # (a function of the step counter and of injected clock jumps), so the failing run replays exactly
    edit(T, "def _map_index_to_line_and_column(text):\n    line_numbers = []", "import time as _time\n_LINEMAP = {}\n\ndef _map_index_to_line_and_column(text):\n    hit = _LINEMAP.get(len(text))\n    if hit is not None and _time.monotonic() - hit[0] < 0.05:\n        return hit[1]\n    line_numbers = []")
    edit(T, "        column_numbers.append(current_column)\n\n    return line_numbers, column_numbers", "        column_numbers.append(current_column)\n\n    _LINEMAP[len(text)] = (_time.monotonic(), (line_numbers, column_numbers))\n    return line_numbers, column_numbers")

@mutant
def active_rule_stack_popped_by_late_finalisation():
    # "which rule are we in" for diagnostics: every rule body pushes its name on a module-level list and pops it in
    # a `finally:`.  The suspended bodies of a call abandoned by user code are finalised only when the caller drops
    # the exception -- possibly in the middle of another call, whose entries they then pop
    edit('sourcer/expressions/rule.py', "                out.add_comment(f'Rule {self.name!r}')\n                self.expr.compile(out, flags)\n                out.YIELD((STATUS, RESULT, POS))",
         "                out.add_comment(f'Rule {self.name!r}')\n                out += Code(f'_active_rules.append({self.name!r})')\n                with out.TRY():\n                    self.expr.compile(out, flags)\n                    out.YIELD((STATUS, RESULT, POS))\n                with out.FINALLY():\n                    out += Code('_active_rules.pop()')")
    edit(T, "def _run(${ctx}text, pos, start, fullparse):\n    memo = {}\n", "_active_rules = []\n\n\ndef _run(${ctx}text, pos, start, fullparse):\n    memo = {}\n")
    edit(T, "    _PositionInfo,\n", "    _PositionInfo,\n    _active_rules,\n")

@mutant
def linemap_cached_by_identity_also_for_mutable_buffers():
    # correct for str and bytes (identity with a strong reference, validated with `is`) -- not for a bytearray
    # that its owner refills in place between two calls
    edit(T, "def _map_index_to_line_and_column(text):\n    line_numbers = []", "_LAST_MAP = [None, None]\n\ndef _map_index_to_line_and_column(text):\n    if _LAST_MAP[0] is text:\n        return _LAST_MAP[1]\n    line_numbers = []")
    edit(T, "        column_numbers.append(current_column)\n\n    return line_numbers, column_numbers", "        column_numbers.append(current_column)\n\n    _LAST_MAP[0], _LAST_MAP[1] = text, (line_numbers, column_numbers)\n    return line_numbers, column_numbers")

if __name__ == '__main__':
    fresh()
    only = sys.argv[2:] 
    for name, f in MUTANTS.items():
        if only and name not in only:
            continue
        f(); save(name); print('wrote', name)
    shutil.rmtree(WT, ignore_errors=True)

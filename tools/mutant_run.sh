#!/bin/bash
# tools/mutant_run.sh <patch.diff> <property> [--tests] [extra check args...]
# Applies a patch to a scratch copy of /repo under /dev/shm, runs the check against it, removes the copy.
# Never touches /repo; writes no evidence; replay files go to the scratch dir (removed).
set -u
PATCH=$(readlink -f "$1"); PROP=$2; shift 2
TESTS=0
if [ "${1:-}" = "--tests" ]; then TESTS=1; shift; fi
NAME=$(basename "$PATCH" .diff)
D=/dev/shm/mut_${NAME}_$$
mkdir -p "$D" && git -C /repo archive HEAD | tar x -C "$D"
# include uncommitted changes of /repo? no: mutants are defined against HEAD
if ! patch -s -p1 -d "$D" < "$PATCH"; then echo "MUTANT $NAME: patch failed"; rm -rf "$D"; exit 3; fi
if [ $TESTS = 1 ]; then
  (cd "$D" && timeout 900 /venv/bin/python -m pytest -q -p no:cacheprovider -x 2>&1 | tail -2 | sed "s/^/  tests[$NAME]: /")
fi
mkdir -p "$D/_replays"
cd /verif && VERIF_REPO="$D" VERIF_REPLAYS="$D/_replays" timeout 1800 ./check "$PROP" --no-evidence "$@" > "$D/_out.txt" 2>&1
RC=$?
echo "MUTANT $NAME property=$PROP exit=$RC $(grep -c '^VIOLATION' "$D/_out.txt") violation line(s)"
grep -E '^(VIOLATION|HARNESS|KNOWN|C[0-9]+:)' "$D/_out.txt" | head -5 | cut -c1-400 | sed 's/^/    /'
if [ -n "${KEEP_REPLAY:-}" ]; then mkdir -p "$KEEP_REPLAY"; cp "$D"/_replays/*.json "$KEEP_REPLAY"/ 2>/dev/null; fi
rm -rf "$D"
exit $RC

#!/bin/bash
# Runs every behaviour-preserving change of /verif/neutral against all three quick checks (scratch copies): every line must say exit=0.
# Usage: tools/neutral_all.sh [wall seconds]   -> /verif/neutral/RESULTS.txt
W=${1:-45}
OUT=/verif/neutral/RESULTS.txt
echo "# tools/neutral_all.sh $W  ($(date -u +%FT%TZ), /repo $(git -C /repo rev-parse --short HEAD), /verif $(git -C /verif rev-parse --short HEAD))" > $OUT
for d in /verif/neutral/*/; do
  ID=$(basename $d)
  for P in C07 C13 C18; do
    /verif/tools/mutant_run.sh $d/patch.diff $P --wall $W 2>&1 | grep -E "^MUTANT|^    (VIOLATION|HARNESS|C[0-9]+:)" | sed "s/^MUTANT patch /NEUTRAL $ID /" | cut -c1-260 >> $OUT
  done
done
cat $OUT

#!/bin/bash
# tools/neutral_verify.sh <dir with patch.diff demo.py meta.json> <id>: behaviour-preserving change:
# tests pass with it; demo passes without and with it.  Copies to /verif/neutral/<id>/ on success.
set -u
SRC=$1; ID=$2
D=/dev/shm/nv_$ID; rm -rf $D; mkdir -p $D && git -C /repo archive HEAD | tar x -C $D
cp $SRC/demo.py $D/ || exit 3; cp $SRC/*.json $D/ 2>/dev/null
cd $D
B_DEMO=$(timeout 900 /venv/bin/python demo.py >/dev/null 2>&1; echo $?)
if ! patch -s -p1 < $SRC/patch.diff; then echo "$ID: patch does not apply"; rm -rf $D; exit 3; fi
M_TEST=$(timeout 900 /venv/bin/python -m pytest -q -p no:cacheprovider 2>&1 | tail -1)
M_DEMO=$(timeout 900 /venv/bin/python demo.py >/dev/null 2>&1; echo $?)
echo "$ID: baseline demo exit=$B_DEMO | changed demo exit=$M_DEMO tests='$M_TEST'"
if [ "$B_DEMO" = 0 ] && [ "$M_DEMO" = 0 ] && echo "$M_TEST" | grep -q "^52 passed"; then
  mkdir -p /verif/neutral/$ID && cp $SRC/patch.diff $SRC/demo.py $SRC/meta.json /verif/neutral/$ID/ && cp $SRC/*.json /verif/neutral/$ID/ 2>/dev/null; echo "$ID: CONFIRMED neutral -> /verif/neutral/$ID"
else echo "$ID: NOT CONFIRMED"; fi
cd /; rm -rf $D

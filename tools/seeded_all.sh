#!/bin/bash
# Runs every seeded change against the quick check of its property (applies to /repo, runs, reverts).
# Usage: tools/seeded_all.sh [wall]  -> /verif/seeded/RESULTS.txt
W=${1:-40}
OUT=/verif/seeded/RESULTS.txt
echo "# tools/seeded_all.sh $W ($(date -u +%FT%TZ), /repo $(git -C /repo rev-parse --short HEAD), /verif $(git -C /verif rev-parse --short HEAD))" > $OUT
for d in /verif/seeded/*/; do
  ID=$(basename $d)
  PROP=$(/venv/bin/python -c "import json;print(json.load(open('$d/meta.json'))['property'])")
  /verif/tools/seeded_run.sh $ID $PROP --wall $W --no-selftest 2>&1 | grep -E "^SEEDED|^  \{" | cut -c1-260 >> $OUT
done
cat $OUT

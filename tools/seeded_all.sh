#!/bin/bash
# Runs every seeded change against the quick check of its property.
#   tools/seeded_all.sh [wall] [--scratch]
# default: applies each patch to /repo (git apply), runs the check there, reverts (git checkout -- .);
# --scratch: uses a scratch copy under /dev/shm instead (leaves /repo alone, can run next to other work).
# Writes /verif/seeded/RESULTS.txt; tools/seeded_report.py turns it into RESULTS.md.
W=${1:-40}; MODE=${2:-apply}
OUT=/verif/seeded/RESULTS.txt
echo "# tools/seeded_all.sh $W $MODE ($(date -u +%FT%TZ), /repo $(git -C /repo rev-parse --short HEAD), /verif $(git -C /verif rev-parse --short HEAD))" > $OUT
for d in /verif/seeded/*/; do
  ID=$(basename $d)
  PROP=$(/venv/bin/python -c "import json;print(json.load(open('$d/meta.json'))['property'])")
  if [ "$MODE" = "--scratch" ]; then
    /verif/tools/mutant_run.sh $d/patch.diff $PROP --wall $W 2>&1 | grep -E "^MUTANT|^    (VIOLATION|C[0-9]+:)" | sed "s/^MUTANT patch /SEEDED $ID /" | cut -c1-260 >> $OUT
  else
    /verif/tools/seeded_run.sh $ID $PROP --wall $W 2>&1 | grep -E "^SEEDED|^  \{" | cut -c1-260 >> $OUT
  fi
done
cat $OUT

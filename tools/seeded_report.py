#!/venv/bin/python
"""Regenerates /verif/seeded/RESULTS.md from seeded/RESULTS.txt (written by tools/seeded_all.sh) and the meta.json files."""
import glob, json, os, re
HIST = {
 'a3-memo-trim-long-input': 'missed at first (inputs were at most ~60 characters): long inputs, the shared-prefix-seq family and an outermost rule that backtracks were added to the packrat workload',
 'b3-parse-grammar-lru-cache': 'missed at first (a re-bound name was never extended again): histories now re-create an edited ancestor under its name and then every descendant from its unchanged text; every execution runs in a freshly forked child',
 'a2-rule-argument-wrapped-memo-key': 'caught only at run 11171 at first: pass-through template and via-template amplification added',
 'c4-shared-container-literal': 'missed at first (no container literals in inline Python): pylit feature added; the scramble fault exposes the shared object',
 'c6-parse-grammar-lru-cache': 'missed at first (references were generated in the same, poisoned process): pristine source server, re-creation operations, construction-history check',
 'a7-ignored-rule-bodies-inlined': 'missed at first (named ignore rules were not judged and carried no probe): they are user-declared parameterless rules - judged and probed now',
 'b7-shadowed-ignore-rule-loses-super-has-ignore': 'missed at first (ignore rules were never overridden): gen_child(override_ignore_p), model resolves a named ignore rule to its most-derived definition, entry-specific texts',
 'c7-interned-literal-argument-wrappers': 'missed at first (same literal at two call sites was rare): literal-argument bias, tour grammar; caught once or twice per quick run',
 'c8-literal-wrapper-published-before-complete': 'missed at first (two-line first-use window): static shared-state line scan, window injection (targeted / one-shot / first-visit policies), tour grammar; still rare: about 1 in 30 000 runs',
 'b10-super-without-override-late-bound': 'missed at first (super only inside overrides): super in new rules; grandchild overrides what the parent reaches through super',
 'c9-regex-matcher-kind-fallback-sticks': 'missed at first (inputs always of the grammar\'s kind): wrong-kind inputs, binary family, sibling operations',
 'a13-rule-entry-points-skip-leading-ignored-with-own-memo': 'missed at first (ignore rules were single regexes, first tokens never empty): packrat family ignore-interplay',
 'a14-leading-skip-driven-with-its-own-memo': 'missed at first (same reason as a13): packrat family ignore-interplay',
 'b13-static-cannot-fail-fact-early-bound-through-references': 'missed at first (no base rule that cannot fail was overridden by one that can, reachably): kind-matrix variant nullable_x with forced failing overrides',
 'c13-nested-parse-of-same-text-object-left-unfinalised': 'caught only at run 2596 at first (through the shared text objects added the same hour): nested calls are handed the `_text` of the enclosing call (textobj outer); now within the first dozens of runs',
 'a11-single-use-references-skip-memo': 'missed at first (reference amplification duplicates references): family single-site; requests recognised by shape, not by tag value',
 'b11-inherited-start-spelling-of-farthest-ancestor': 'missed at first (the generator always wrote `start`): start spelling per level',
 'c11-metadata-class-level-dict': 'missed at first (no client used the module\'s own tools on a result): operation postprocess',
 'b2-anon-ignore-names': 'caught as built; re-expressed against the repaired tree (D7 fix) as "drop the depth from the name"',
 'a17-adaptive-memoisation-frozen-after-1000-calls': 'missed at first (no module lived through more than ~30 calls): operation burst - hundreds to thousands of ordinary calls on the hot module before the judged ones',
 'b15-keyword-arguments-bound-by-position-at-compile-time': 'missed at first (single-parameter templates, positional calls, parameterised rules never overridden): keyword calls, numeric arguments and count parameters in the spec language; kind-matrix grammars call Cn(p, q) by keyword and by position, derived grammars override it with permuted parameters',
 'b16-module-registered-before-its-body-ran': 'C13 (sequential) cannot see it - it needs two threads and is C18\'s clause "interleaved Grammar() constructions"; C18 missed it at first: race scenario, pre-emptible module bodies, extension of a module another client is building; caught by the thorough tier only (run 12341 of 28000)',
 'c16-expression-ids-from-process-wide-counter-reset-per-construction': 'missed at first (needs a second construction to start inside the translation phase of a first one, 3 % of its steps): race scenario with the point biased to the construction\'s own logic, source-divergence lead with extra probes; caught by the thorough tier only (run 11587 of 27500)',
 'b17-parent-python-section-names-imported-over-the-childs': 'missed at first (generated chains had no Python sections): helper sections hlp/hlq defined differently at every level, used by `|>` and `where` of that level; the flattened model renames them per level',
 'b18-literal-wrappers-interned-by-value-across-the-chain': 'missed at first (the same literal argument at two levels with and without ignore was a once-in-4000-histories shape - the shape of known finding D8): derived grammars echo a literal call of an ancestor in half of the chains; caught through the stability invariant (using B changed A); the order "base first" is masked by D8\'s attribution',
 'c18-per-family-rlock-around-the-driver-lock-ordering': 'hung the simulator at first (a real lock in the shipped parser blocked the baton holder: exit 2): synchronisation seam (simulated locks, outcome deadlock), sourcer imported under the seam, mutual-nesting workload; caught as `deadlock` vs value',
 'b19-ignored-skipper-single-pass-relies-on-literal-flags': 'missed at first (no derived grammar consisted of ignore declarations only, ignorable tokens were never adjacent, and parses on which the two readings of combined ignore patterns differ were not judged): ignore-only derived grammars, two declarations per level, adjacent gaps; such parses must now agree with ONE of the two readings',
 'c20-weak-in-flight-table-outlives-failed-calls': 'not run before strengthening: on reading the report, exceptions of FAILED calls are kept by the caller as well (kept exceptions of aborted calls had been added an hour earlier) and a sibling repeats the very same call; caught then (14 violations in 228 runs)',
 'c21-call-closures-stored-on-the-context-inherited-by-snapshot': 'caught as built by C18 (1 in 2000 runs: constructions from parse callbacks had been added while the change was being written) and by C13 (7 in 1764: parent used before the child is created)',
 'c10-recursion-limit-raised-during-construction': 'missed at first (no user code looked at interpreter-wide settings): envprobe() in generated grammars; module-state mutation lines in library code are injection points',
}
res = open('/verif/seeded/RESULTS.txt').read().splitlines()
det, cur = {}, None
for l in res:
    m = re.match(r'SEEDED (\S+) property=(\S+) exit=(\d)', l)
    if m:
        cur = m.group(1); det[cur] = {'property': m.group(2), 'exit': int(m.group(3)), 'violation': None}
    elif l.strip().startswith('{') and cur:
        det[cur]['violation'] = l.strip()[:240]
lines = ['# Independently written breaking changes (`/verif/seeded/<id>/`)', '',
 'Each was written by a fresh sub-agent that saw only the text of one property and a scratch git worktree of /repo (nothing from /verif).',
 'Each was confirmed by `tools/seeded_verify.sh` in a scratch copy: the 52 repository tests pass without and with the change; `demo.py` exits 0 without and 1 with the change.',
 'Each was then run against the quick check of its property by `tools/seeded_run.sh <id> <prop>` (`git -C /repo apply`, run, `git -C /repo checkout -- .`); `tools/seeded_all.sh [wall]` repeats all of them and writes RESULTS.txt; this file is generated by `tools/seeded_report.py`.',
 '', res[0] if res else '', '', '| id | property | what it does / needs | last result | history |', '|---|---|---|---|---|']
for d in sorted(glob.glob('/verif/seeded/*/')):
    i = os.path.basename(d.rstrip('/'))
    meta = json.load(open(d + 'meta.json'))
    r = det.get(i, {})
    meta['verified_by_me'] = {'script': 'tools/seeded_verify.sh', 'tests_without_change': '52 passed', 'tests_with_change': '52 passed',
                              'demo_without_change_exit': 0, 'demo_with_change_exit': 1}
    if r:
        meta['check_result'] = {'command': 'tools/seeded_run.sh %s %s' % (i, r.get('property')), 'exit': r.get('exit'), 'first_violation': r.get('violation')}
    if i in HIST:
        meta['history'] = HIST[i]
    json.dump(meta, open(d + 'meta.json', 'w'), indent=1)
    lines.append('| %s | %s | %s **Needs:** %s | %s | %s |' % (
        i, meta.get('property'), ' '.join(str(meta.get('summary', '')).split())[:300].replace('|', '/'),
        ' '.join(str(meta.get('needs_to_manifest', '')).split())[:260].replace('|', '/'),
        {1: 'caught (exit 1)', 0: 'not caught in this run'}.get(r.get('exit'), 'not run'), HIST.get(i, 'caught as built')))
open('/verif/seeded/RESULTS.md', 'w').write('\n'.join(lines) + '\n')
print('wrote', len(det), 'results')

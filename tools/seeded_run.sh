#!/bin/bash
# tools/seeded_run.sh <id> <property> [extra check args]  -- applies /verif/seeded/<id>/patch.diff to /repo,
# runs the quick check of the property there, and undoes the change straight afterwards.
set -u
ID=$1; PROP=$2; shift 2
cd /repo && [ -z "$(git status --porcelain)" ] || { echo "/repo not clean"; exit 3; }
git -C /repo apply /verif/seeded/$ID/patch.diff || { echo "apply failed"; exit 3; }
mkdir -p /dev/shm/seeded_replays_$ID
cd /verif && VERIF_REPLAYS=/dev/shm/seeded_replays_$ID timeout 1800 ./check $PROP --no-evidence "$@" > /dev/shm/seeded_out_$ID.txt 2>&1
RC=$?
git -C /repo checkout -- .
echo "SEEDED $ID property=$PROP exit=$RC"
grep -E '^(VIOLATION|HARNESS|KNOWN|NOTE|C[0-9]+:)' /dev/shm/seeded_out_$ID.txt | cut -c1-300 | head -6 | sed 's/^/    /'
grep -A1 '^VIOLATION' /dev/shm/seeded_out_$ID.txt | grep '^  ' | head -1 | cut -c1-600
rm -rf /dev/shm/seeded_replays_$ID
exit $RC

#!/bin/bash
# tools/seeded_verify.sh <dir with patch.diff demo.py meta.json> <id>
# Confirms in a scratch copy: tests pass without and with the change; demo passes without, fails with.
# On success copies the three files to /verif/seeded/<id>/ . Scratch copy is removed.
set -u
SRC=$1; ID=$2
D=/dev/shm/sv_$ID; rm -rf $D; mkdir -p $D && git -C /repo archive HEAD | tar x -C $D
cp $SRC/demo.py $D/ || exit 3
cd $D
B_DEMO=$(timeout 600 /venv/bin/python demo.py >/dev/null 2>&1; echo $?)
B_TEST=$(timeout 900 /venv/bin/python -m pytest -q -p no:cacheprovider 2>&1 | tail -1)
if ! patch -s -p1 < $SRC/patch.diff; then echo "$ID: patch does not apply"; rm -rf $D; exit 3; fi
M_TEST=$(timeout 900 /venv/bin/python -m pytest -q -p no:cacheprovider 2>&1 | tail -1)
M_DEMO=$(timeout 600 /venv/bin/python demo.py >/dev/null 2>&1; echo $?)
echo "$ID: baseline demo exit=$B_DEMO tests='$B_TEST' | changed demo exit=$M_DEMO tests='$M_TEST'"
OK=0
if [ "$B_DEMO" = 0 ] && [ "$M_DEMO" != 0 ] && echo "$B_TEST" | grep -q "^52 passed" && echo "$M_TEST" | grep -q "^52 passed"; then
  mkdir -p /verif/seeded/$ID && cp $SRC/patch.diff $SRC/demo.py $SRC/meta.json /verif/seeded/$ID/ && echo "$ID: CONFIRMED -> /verif/seeded/$ID"
else
  echo "$ID: NOT CONFIRMED"; OK=1
fi
cd /; rm -rf $D; exit $OK

#!/bin/bash
# Runs every mutant of /verif/mutants against the quick check of its property (scratch copies; /repo untouched).
# Usage: tools/sensitivity_all.sh [wall seconds per mutant]   -> /verif/mutants/RESULTS.txt
W=${1:-20}
OUT=/verif/mutants/RESULTS.txt
echo "# tools/sensitivity_all.sh $W  ($(date -u +%FT%TZ), /repo $(git -C /repo rev-parse --short HEAD))" > $OUT
for P in C07 C13 C18; do
  for m in /verif/mutants/$P/*.diff; do
    /verif/tools/mutant_run.sh $m $P --wall $W 2>&1 | grep -E "^MUTANT" >> $OUT
  done
done
# cross-property mutants
/verif/tools/mutant_run.sh /verif/mutants/C18/memo_module_level_cleared_at_entry.diff C07 --wall $W 2>&1 | grep -E "^MUTANT" >> $OUT
cat $OUT
